"""Per-property configuration and the generic runner used by /verif/check."""
import os, json, time, glob, hashlib, shutil, subprocess, re, tempfile, concurrent.futures as cf

NCPU = os.cpu_count() or 4

WL_ASSUME = [
    "Go toolchain, pgregory.net/rapid v1.3.0, golang/snappy and compress/gzip (used by the independent parser) are trusted",
    "the harness's own reflection bridge and reference toolkit (pqref, vt) are trusted; they import nothing from the code under test",
    "bounds: see coverage.rule; everything outside the explored bounds is not covered",
]

# kind "rapid": a rapid.Check property sharded by seed; counts are total cases over all shards.
# kind "enum":  a deterministic Go test that enumerates a space itself, sharded by VERIF_SHARD/VERIF_NSHARDS.
HOOK_COMMITS = ["b799385"]
NOT_YET = {}

PROPS = {
    "C01": dict(
        level="exploration",
        technique="property-based testing (rapid): generated workloads, write/read round-trip oracle against the input list",
        level_text="Exploration: thousands of generated record sequences x partitions x page sizes x codecs through code regenerated from the "
                   "working tree's templates; holds on everything explored, no proof of absence.",
        level_note="Trusted: Go toolchain, rapid, the harness's reflection bridge (vt). Bounds: <=150 records/case, lists <=700, strings <=300 bytes, fixtures flat24/nest/tiny.",
        fixtures=["flat24", "nest", "tiny", "rep3", "big", "stats2", "rep3b", "reqopt"],
        gen_anchored=True,
        stages=[dict(test="TestC01", kind="rapid", quick=2400, thorough=48000)],
        replay="TestReplayC01",
        rule="rapid-generated workloads (fixture in {flat24 = 8 primitives x {required,optional,repeated}; nest = embedded/required/optional/"
             "repeated groups, repeated-in-repeated, excluded fields; tiny}, 0..150 records biased to extreme scalars, lists up to 700, "
             "random partition into non-empty batches, page size from 1..17,23..33,63..65,100,1000, codec in {uncompressed,snappy,gzip}); the "
             "file is written by code generated from the working tree's parquetgen (records mutated after Add), read back with the generated reader "
             "into fresh structs; oracle = identity with the input list, Rows(), Next() count, Error()==nil, scanned records re-checked after the "
             "last Next. A case is non-trivial if it has >= 2 records and (>= 2 row groups or a batch larger than the page size, i.e. >= 2 pages "
             "in a chunk); distinct = distinct hash of the whole case.",
    ),
    "C02": dict(
        level="exploration",
        technique="property-based testing (rapid): generated workloads; every written file parsed by an independent thrift/Parquet walker with a byte ledger",
        level_text="Exploration: generated workloads on five struct shapes (flat, nested 3 deep, same-named groups, repeated groups); each file is "
                   "judged by a parser written from the format specification that accounts for every byte. No proof of absence.",
        level_note="Trusted: pqref (independent thrift compact + Parquet walker), golang/snappy and compress/gzip for decompression. "
                   "Not demanded: ColumnMetaData.encodings content, created_by, statistics content (C12).",
        fixtures=["flat24", "nest", "tiny", "deep", "samename", "rep3", "collide", "big", "dupleaf"],
        gen_anchored=True,
        stages=[dict(test="TestC02", kind="rapid", quick=2400, thorough=48000)],
        replay="TestReplayC02",
        rule="rapid-generated workloads as in C01 on fixtures flat24, nest, tiny, deep (groups nested 3 levels, required/optional in several "
             "positions) and samename (same-named groups under different parents); the bytes given to the sink are parsed by pqref: magic x2, "
             "footer length, thrift footer, schema tree by num_children equal to the schema derived from the Go struct, leaves <-> chunks 1:1 in "
             "order, data_page_offset/file_offset contiguous from byte 4, page chain by compressed_page_size, decompression with the recorded codec "
             "(= requested), uncompressed sizes, num_values, total_(un)compressed_size, row-group num_rows = batch size, total_byte_size = sum of "
             "uncompressed chunk sizes, FileMetaData.num_rows, every byte accounted for; per page <= page-size records, first repetition level 0, "
             "level sections strictly decoded, value section exactly consumed. Non-trivial: >= 2 records and (>= 2 row groups or >= 2 pages in a "
             "chunk), or any non-empty case on deep/samename; distinct by case hash.",
    ),
    "C03": dict(
        level="exploration",
        technique="property-based testing (rapid): written column data compared with an independent Dremel shredder; records reassembled by an independent assembler",
        level_text="Exploration: generated records (every nil/empty/multi-element combination the generator reaches) on the fixture shapes and, in the "
                   "lab stage, on every compiling shape of the bounded grammar; rep/def levels and values read from the file by an independent parser "
                   "are compared entry by entry with the canonical striping, then reassembled by a spec-only assembler.",
        level_note="Trusted: pqref's shredder/assembler (written from the Dremel definitions, self-tested as inverses) and page parser.",
        fixtures=["flat24", "nest", "tiny", "deep", "samename", "rep3", "rep3b", "reqopt", "dupleaf"],
        gen_anchored=True,
        stages=[dict(test="TestC03", kind="rapid", quick=2400, thorough=48000), dict(test="TestC03MiB", kind="enum", quick=1, thorough=1, shards=3)],
        replay="TestReplayC03",
        rule="rapid-generated workloads (as C01, <= 60 records, lists <= 300) on fixtures flat24, nest (repeated-in-repeated, optional group with "
             "repeated group), tiny, deep, samename; for every row group and column the (rep, def, value) entries decoded from the pages by pqref "
             "must equal the reference shredder's output for the same records; levels <= column maxima; the reference assembler must rebuild the "
             "original records from the file's entries (sibling columns must agree on null-ness/length of shared groups). Non-trivial: the records "
             "contain a nil optional below the top level, an empty list below the top level, or lists with >= 2 elements at two nesting levels; "
             "distinct by case hash.",
    ),
    "C12": dict(
        level="exploration",
        technique="property-based testing (rapid): adversarial value classes; page statistics compared with values decoded independently from the same page",
        level_text="Exploration: generated pages over adversarial value multisets (all-negative, two-value domains, NaN/Inf heavy, strings around the "
                   "writer's internal sentinel, unsigned values with the high bit set, all-null pages); soundness of min/max and exactness of "
                   "null_count judged against an independent decode of each page.",
        level_note="Trusted: pqref page parser. Tightness of min/max is not demanded (only soundness), NaN values are excluded from the bound check as the property states.",
        fixtures=["flat24", "nest", "tiny", "stats2"],
        gen_anchored=True,
        stages=[dict(test="TestC12", kind="rapid", quick=3200, thorough=64000)],
        replay="TestReplayC12",
        rule="rapid workloads on flat24/nest/tiny with a value class per case in {mixed, neg, tiny, nan, sentinel, longstr (60..146-byte strings sharing long prefixes)}, null probability in "
             "{10,33,80}%, page size 1..8 for half the cases; each page's Statistics (min_value/max_value and legacy min/max if present, "
             "null_count) is checked against the page's own values decoded by pqref: null_count = #(def < max) for columns with levels (absent or 0 "
             "for required), min <= v <= max for every non-null non-NaN v in the column order (signed / unsigned via converted type / IEEE / bytewise), "
             "min/max absent when the page has no non-null value. Non-trivial: a page with >= 2 distinct non-NaN values under a min/max check, or an all-null page; distinct by case hash.",
    ),
    "C16": dict(
        level="exploration",
        technique="property-based testing (rapid): differential check of ReadMetaData / PageHeaders / PageHeadersAtOffset against an independent footer decode and page walk",
        level_text="Exploration: for generated valid files the three introspection calls are compared field by field with what an independent "
                   "thrift decoder and page walker find in the same bytes.",
        level_note="Trusted: pqref. The library's thrift schema predates RowGroup fields 5..7, which are therefore not compared.",
        fixtures=["flat24", "nest", "tiny", "deep", "samename", "rep3", "big", "dupleaf"],
        gen_anchored=False,
        stages=[dict(test="TestC16", kind="rapid", quick=2400, thorough=48000), dict(test="TestC16Foreign", kind="rapid", quick=1600, thorough=32000),
                dict(test="TestC16FooterSweep", kind="enum", quick=1, thorough=1)],
        replay="TestReplayC16",
        rule="rapid workloads (as C01, <= 80 records) on five fixtures and three codecs, plus (stage 2) conformant foreign "
             "files from pqref's writer carrying optional footer/page-header fields (created_by, key/value metadata, column_orders, encoding_stats, column statistics, crc, legacy min/max); ReadMetaData converted field by field must equal pqref's footer decode; PageHeaders must equal the walker's "
             "list of data-page headers in file order incl. statistics; PageHeadersAtOffset(data_page_offset, num_values) must equal the chunk's headers and, started "
             "at page j with the remaining value count, the tail (first three and last two start pages of every chunk). Non-trivial: >= 2 row groups and a chunk with >= 2 pages; distinct by case hash.",
    ),
    "C08": dict(
        level="exploration",
        technique="property-based testing (rapid): metamorphic relation - same file through a fragmenting io.ReadSeeker must read identically to bytes.Reader",
        level_text="Exploration: generated valid files x generated read-fragmentation patterns allowed by the io.Reader contract; oracle is equality with the unfragmented read.",
        level_note="Trusted: the harness's fragmenting reader (never returns (0,nil) for a non-empty buffer, is not an io.ByteReader).",
        fixtures=["flat24", "nest", "tiny", "big"],
        gen_anchored=True,
        stages=[dict(test="TestC08", kind="rapid", quick=2400, thorough=48000)],
        replay="TestReplayC08",
        rule="rapid workloads (<= 40 records, all codecs, all page sizes) written by the library, then read (a) through bytes.Reader and (b) through a wrapper that "
             "returns at most c bytes per Read for c in {1..16,31,61,127,509,4093} or follows a drawn cyclic schedule of sizes 1..40, optionally returning n>0 together "
             "with io.EOF at the end; Seek passes through. Rows and Error() must be identical. Non-trivial: non-empty file and at least one Read returned fewer bytes than "
             "requested although more were available; distinct by case hash. Cases whose unfragmented read fails are discarded and counted (label discarded-baseline-failed).",
    ),
    "C09": dict(
        level="fault_enumeration",
        technique="fault injection enumerated exhaustively over every sink write index of rapid-generated workloads",
        level_text="Fault enumeration: for each generated workload the sink fails at every write index k = 1..N (N counted in a fault-free run) in three modes; "
                   "the API call in flight must return a non-nil error and nothing may panic.",
        level_note="Trusted: the harness's failing io.Writer, which records which API call was executing when it failed. Nothing is asserted about calls after the failing one.",
        fixtures=["tiny", "flat24", "nest", "big"],
        gen_anchored=True,
        stages=[dict(test="TestC09", kind="rapid", quick=32, thorough=640, timeout_thorough=3600), dict(test="TestC09Big", kind="enum", quick=1, thorough=1, shards=6)],
        replay="TestReplayC09",
        rule="rapid workloads (<= 10 records, <= 3 batches, page size often 1..4, all codecs, fixtures tiny/flat24/nest); for every k in 1..N (N = number of Write calls "
             "the sink sees in the fault-free run) and mode in {fail once, fail from k on, short write (n<len, err), the first two also with a net-style Temporary()/Timeout() error and with a sink that additionally offers Seek and Truncate like *os.File} the history NewParquetWriter, Add.., Write.., Close is "
             "replayed; the API call during which the sink first failed must return a non-nil error; no panic. One evaluation = one (workload, k, mode); each is classified by "
             "the part of the file the k-th write carries (magic, page-header, page-body, footer, footer-length, trailing-magic) per codec - see class_histogram. "
             "All fault points are non-trivial (a fault is really injected); distinct by (workload hash, k, mode). Stage TestC09Big: the same enumeration over six fixed files of 1500 records with one page of 70-300 KiB per column (fixture big: required, optional and repeated columns; 3 codecs x {one, two} row groups).",
    ),
    "C10": dict(
        level="fault_enumeration",
        technique="fault injection enumerated exhaustively over every source Read/Seek index of rapid-generated files",
        level_text="Fault enumeration: for each generated valid file the source fails at every Read/Seek call index k = 1..M (M counted in a fault-free open-and-iterate) "
                   "in six modes; the reader must report an error or deliver exactly the true rows, and must not panic.",
        level_note="Trusted: the harness's failing io.ReadSeeker; the injected error is a distinct sentinel, not io.EOF (premature EOF is C11).",
        fixtures=["tiny", "flat24", "nest", "big", "bigtail"],
        gen_anchored=True,
        stages=[dict(test="TestC10", kind="rapid", quick=48, thorough=960, timeout_thorough=5400), dict(test="TestC10Big", kind="enum", quick=1, thorough=1, shards=7)],
        replay="TestReplayC10",
        rule="rapid workloads (<= 12 records, all codecs, page size often 1..4, fixtures tiny/flat24/nest) written by the library; for every call index k of the source and "
             "mode in {Read->(0,err), Read->(n/2 bytes,err), Seek->err} x {once, every call from k on} (mode applied to calls of the matching kind) the file is opened and iterated "
             "with the README loop; pass iff the constructor or Error() reports an error, or all rows were delivered and equal the written records; a panic is a violation. "
             "One evaluation = one (file, k, mode), all non-trivial (a fault is injected); distinct by (workload hash, k, mode). "
             "Stage 2 (seed independent): the same enumeration on six fixed big files (fixture big: int64, string, *string, []int64, bool, []{int32,*int32}; 2100 records in one page, 1 or 2 row groups, 3 codecs) and one file (fixture bigtail: int64, string) whose last column is a single uncompressed page payload of about 5 MiB.",
    ),
    "C11": dict(
        level="fault_enumeration",
        technique="crash-point enumeration: every strict prefix of rapid-generated valid files is opened and iterated",
        level_text="Fault enumeration over crash points: every byte length 0..len-1 of each generated valid file; the reader must report an error (constructor or Error()) and must not panic.",
        level_note="Trusted: bytes.Reader as the source. A prefix that is itself a structurally valid file (judged by pqref) would be exempt; such prefixes are counted (label prefix_is_valid_file).",
        fixtures=["tiny", "flat24", "nest"],
        gen_anchored=True,
        stages=[dict(test="TestC11", kind="rapid", quick=640, thorough=16000, timeout_thorough=5400), dict(test="TestC11Tail", kind="enum", quick=1, thorough=1)],
        replay="TestReplayC11",
        rule="rapid workloads (<= 16 records, <= 3 row groups, all codecs, fixtures tiny/flat24/nest) written by the library; for every n in 0..len-1 the first n bytes are opened "
             "with NewParquetReader over bytes.Reader and iterated with the README loop under recover; violation iff no error from the constructor and Error()==nil after iteration, or a panic. "
             "One evaluation = one (file, n); every cut is non-trivial; classified by where the cut falls (magic, data, footer, tail); distinct by (workload hash, n). Every prefix is opened twice: with the source at offset 0 and positioned after the leading magic; prefixes shorter than 12 bytes, the last 9 cuts and every 53rd length are also written to disk and opened as *os.File. "
             "Stage 2 (directed, seed independent): files with densely varying footer lengths (1..30/45 row groups x 1..6 rows in the last one x 3 codecs x 26/40 padding lengths) and every cut in the last 16 bytes - "
             "the crash point of an interrupted Close, whose last sink writes are footer, footer length and trailing magic.",
    ),
    "C06": dict(
        level="exploration",
        technique="model-based testing of call histories: bounded-exhaustive enumeration of Add/Write words plus rapid-generated long histories, against a list-of-batches model",
        level_text="Exploration over histories: every word over {Add, Write} up to length 8 (quick) / 11 (thorough) x page size 1..4 x 3 codecs is executed (exhaustive for that bound), "
                   "plus rapid-generated histories of up to ~200 calls on three fixtures; the resulting file must be exactly the model's list of non-empty batches.",
        level_note="Trusted: pqref walker/assembler; the model (Write with nothing pending is a no-op; rows pending at Close are not in the file) is the property's own statement.",
        fixtures=["tiny", "nest", "flat24"],
        gen_anchored=True,
        exhaustive_quick=True, exhaustive_thorough=True,
        stages=[dict(test="TestC06Enum", kind="enum", quick=1, thorough=1), dict(test="TestC06Long", kind="enum", quick=1, thorough=1, shards=5), dict(test="TestC06", kind="rapid", quick=2400, thorough=40000)],
        replay="TestReplayC06",
        rule="(H1, exhaustive) all words over {Add, Write} of length <= 8 (quick) / <= 11 (thorough), each followed by Close, x page size 1..4 x {uncompressed, snappy, gzip} on "
             "fixture tiny with numbered records; (H2) rapid histories on tiny/nest/flat24: ops Write | Add(rec) | Add x k with k in {1,2,max-1,max,max+1,2max,2max+1}, page size 1..16. "
             "Oracle: file valid under the C02 walker with one row group per non-empty batch (num_rows = batch size, FileMetaData.num_rows = sum, every byte accounted for), records decoded "
             "by pqref and by the generated reader equal concat(batches), Rows() equal. Non-trivial: an empty Write next to a written batch, a batch of exactly k*max rows, or rows "
             "pending at Close; distinct by word/page size/codec (H1) or case hash (H2). 'exhaustive' refers to H1.",
    ),
    "C17": dict(
        level="exploration",
        technique="exhaustive enumeration of the input space against a generic LSB-first reference packer (differential) plus pack/unpack round trip",
        level_text="Exhaustive for the stated bound: every 8-tuple of w-bit values for w = 1..3 in both tiers and for w = 4 in the thorough tier (quick: every 13th tuple), "
                   "and every w-byte group for w <= 3; compared with a 5-line generic reference of the specification's layout.",
        level_note="Trusted: the reference packer (value i occupies bits [i*w,(i+1)*w) of the little-endian byte string). Reached through the verif-tagged hooks VerifBitPack/VerifBitUnpack "
                   "(thin calls to internal/bitpack); the call sites inside the level codec are exercised by C07.",
        fixtures=[],
        gen_anchored=False,
        exhaustive_thorough=True,
        stages=[dict(test="TestC17", kind="enum", quick=1, thorough=1, timeout_thorough=3600)],
        replay="TestReplayC17",
        rule="enumeration, seed-independent: for w in 1..4 every 8-tuple g of w-bit values (quick: for w=4 every 13th tuple, which still puts every value in every position): "
             "Pack(g) must equal the reference layout byte for byte and have w bytes, Unpack(Pack(g)) must equal g; for w <= 3 every w-byte group b: Unpack(b) values < 2^w and "
             "Pack(Unpack(b)) == b (for w = 4 this follows from the complete tuple enumeration because the reference is a bijection onto 4-byte groups). Non-trivial: every group except the all-zero one; all enumerated groups are distinct.",
    ),
    "C07": dict(
        level="exploration",
        technique="bounded-exhaustive enumeration plus property-based testing (rapid) of the level codec against a strict specification decoder and a segmentation-driven specification encoder",
        level_text="Exploration: all level sequences up to a length bound per width (exhaustive for that bound) and rapid-generated run-structured sequences of up to 42 000 values around the "
                   "8-value, 63-group and multi-byte-header boundaries, each paired with random legal segmentations for the decode direction; both through the verif hooks and through "
                   "the public column API (NewOptionalField / DoWrite / DoRead).",
        level_note="Trusted: pqref's strict hybrid decoder and segmentation-driven encoder (spec-derived; they are checked against each other on every case). "
                   "Well-formed = exact length prefix, run headers with count >= 1, RLE value < 2^w, < 8 padding values and only after a final bit-packed run.",
        fixtures=[],
        gen_anchored=False,
        exhaustive_quick=True, exhaustive_thorough=True,
        stages=[dict(test="TestC07Enum", kind="enum", quick=1, thorough=1, timeout_thorough=3600), dict(test="TestC07", kind="rapid", quick=48000, thorough=800000, timeout_thorough=5400),
                dict(test="FuzzC07", kind="fuzz", quick=0, thorough=120, timeout_thorough=900, bin="props.fuzz.test")],
        replay="TestReplayC07",
        rule="(S1, exhaustive, seed independent) all sequences of width-w levels of length <= 16/9/6/5 (quick) or <= 18/10/7/6 (thorough) for w = 1/2/3/4: encoder output strictly decoded "
             "== input, library decode(encode) == input (+ < 8 padding, consumed = 4+len), library decoder on the all-bit-packed and on the maximal-RLE foreign encoding, every 7th also "
             "through the column API; (S2/S3, rapid) run-structured sequences (run lengths from {1,2,3,7,8,9,15,16,17,63,64,65,503,504,505,1000,20000} or 1..40, noise stretches) with a "
             "drawn legal segmentation (RLE runs of any length >= 1, bit-packed runs of any group count incl. > 63, drawn padding value): same oracles, and for <= 6000 values the same "
             "through OptionalField.DoWrite (page parsed by pqref) and OptionalField.DoRead (page built by pqref) for definition and repetition levels. "
             "Non-trivial: a stream with both run kinds, a bit-packed run >= 63 groups, or a multi-byte run header (S2/S3); length >= 8 (S1); distinct by case hash / enumeration index. 'exhaustive' refers to S1.",
    ),
    "C04": dict(
        level="exploration",
        technique="property-based testing (rapid): one logical content x many legal physical encodings produced by an independent writer; differential against the logical content",
        level_text="Exploration: the generated reader is fed files that the library's own writer never produces (arbitrary run segmentation of levels, independent page splits per column, "
                   "per-column codecs, hand-rolled snappy streams, optional thrift fields present/absent, non-zero padding bits); it must return the logical content.",
        level_note="Trusted: pqref's foreign writer; every foreign file is first validated by pqref's own walker and reassembled by the reference assembler (failure => exit 2, not a violation). "
                   "Layout limits of the documented subset are respected: v1 data pages, PLAIN, chunks contiguous from byte 4 in schema order.",
        fixtures=["flat24", "nest", "tiny", "rep3", "reqopt"],
        gen_anchored=True,
        stages=[dict(test="TestC04", kind="rapid", quick=2400, thorough=48000), dict(test="FuzzC04", kind="fuzz", quick=0, thorough=120, timeout_thorough=900, bin="props.fuzz.test"),
                dict(test="TestC04FooterSweep", kind="enum", quick=1, thorough=1)],
        replay="TestReplayC04",
        rule="rapid: 1..3 row groups of 1..120 records on flat24/nest/tiny (lists up to 700 so that pages exceed 504 entries), written by pqref.WriteFile with, per column chunk: "
             "codec (file-wide or mixed per column), page cuts at drawn record boundaries (independent per column), per page a drawn legal segmentation of rep and def level streams "
             "(RLE runs of any length >= 1, bit-packed runs of any group count incl. > 63, drawn padding value), statistics mode 0..3, snappy body from golang/snappy / literal-only / naive copies, "
             "optional crc; footer extras (created_by, key/value metadata, column_orders, RowGroup fields 5..7, field_id, column key/value, encoding_stats, column statistics, legacy BIT_PACKED labels "
             "on absent level streams) present/absent. Oracle: generated reader returns the logical content with Error()==nil and Rows() right. Non-trivial: a bit-packed run > 63 groups, an RLE "
             "run whose length is not a multiple of 8, page splits that differ between two columns, mixed codecs, or a hand-rolled snappy body; distinct by case hash.",
    ),
    "C18": dict(
        level="exploration",
        technique="property-based testing (rapid): valid foreign files with exactly one injected unsupported feature at a generated position; oracle = the reader must refuse",
        level_text="Exploration: conformant files from the independent writer with one genuinely encoded unsupported feature (dictionary / index / v2 page, non-PLAIN value encoding, "
                   "legacy BIT_PACKED levels, foreign codec) at a drawn row group / column / page; the generated reader must report an error, never complete normally, never panic.",
        level_note="Trusted: pqref's encoders for the unsupported features (dictionary + RLE_DICTIONARY indices, DATA_PAGE_V2 layout, BYTE_STREAM_SPLIT, RLE booleans, DELTA_BINARY_PACKED, "
                   "DELTA_LENGTH_BYTE_ARRAY, DELTA_BYTE_ARRAY, MSB-first BIT_PACKED levels); for foreign codecs the body bytes are arbitrary because no such compressor exists offline - "
                   "rejection must come from metadata. The unmodified base file must read correctly, otherwise the case is discarded and counted.",
        fixtures=["flat24", "nest"],
        gen_anchored=True,
        stages=[dict(test="TestC18", kind="rapid", quick=3200, thorough=64000), dict(test="FuzzC18", kind="fuzz", quick=0, thorough=120, timeout_thorough=900, bin="props.fuzz.test")],
        replay="TestReplayC18",
        rule="rapid: 1..3 row groups of 1..50 records on flat24/nest, conservative base encoding with drawn page splits and codec; one injection of kind in {dict-plain, dict-rle, index-page, "
             "v2, enc-bss (float/double), enc-rle-bool, enc-delta-binary (ints), enc-delta-length, enc-delta-bytearray (strings), lvl-bitpacked-def, lvl-bitpacked-rep (columns with such levels), "
             "codec-lzo/brotli/lz4/zstd/lz4raw} at a drawn (row group, applicable column, page); value-encoding kinds are placed on a page with at least one non-null value. Oracle: constructor "
             "error or Error()!=nil after the README loop; completing with nil error or panicking is a violation. Non-trivial: the feature sits in a non-first column, page or row group; distinct by case hash; "
             "class_histogram shows the kinds.",
    ),
}


PROPS["C13"] = dict(
    level="exploration",
    technique="schedule exploration with harness-owned interleavings (API-call level and re-entrant sink) under rapid, plus free-running goroutines under the race detector; oracle = byte equality with each instance's solo run",
    level_text="Exploration over schedules and process histories: 2..5 independent writer/reader instances with drawn histories are interleaved (a) at API-call granularity following a drawn schedule and "
               "(b) by running other instances' complete histories inside one writer's sink Write call at drawn write indices, in both cases after polluting both buffer pools with dirty buffers; "
               "(c) 48 instances run on free goroutines in a -race build. Every instance's output must equal its solo reference; two solo runs must be identical; the race detector must stay silent.",
    level_note="Trusted: Go's race detector; the harness schedules. Limits: preemption points inside an API call other than sink writes are only sampled by engine (c); sync.Pool's per-P caches make "
               "cross-goroutine buffer hand-over rare, which is why engines (a)/(b) run everything on one goroutine where pool reuse is certain.",
    fixtures=["tiny", "flat24", "nest", "twin1", "twin2", "twin3"],
    gen_anchored=True,
    race_bin=True,
    stages=[dict(test="TestC13", kind="rapid", quick=1600, thorough=32000),
            dict(test="TestC13Race", kind="enum", quick=2, thorough=24, bin="props.race.test", shards=4, timeout_thorough=3600),
            dict(test="TestC13RaceCold", kind="enum", quick=1, thorough=1, bin="props.race.test", shards=4)],
    replay="TestReplayC13",
    rule="rapid: 2..5 instances (writer or reader, fixture tiny/flat24/nest, <= 8 records, <= 2 batches, any page size/codec), pool pollution with 0..4 junk sizes x 1..6 buffers; engine 'api': a drawn "
         "cyclic schedule picks which live instance performs its next API call (NewParquetWriter/Add/Write/Close, NewParquetReader/Next+Scan); engine 'reentrant': instances 1.. run to completion inside "
         "instance 0's sink.Write at drawn write indices before the bytes are copied; engine 'yield': one goroutine per instance on a single P (GOMAXPROCS(1)), every sink write and every API call yields the processor. Stage 2 (race build): rounds of 48 instances x 3 repetitions on free goroutines (GOMAXPROCS=16). Stage 3 (race build, fresh processes): the first use of every generated package in the process is made by 32 goroutines at once (cold start), outputs compared with a later sequential run. Oracle: output bytes / "
         "rows+error of every instance equal its solo run; solo runs repeat identically; no race report. Non-trivial: engine api with >= 2 instances alive at once, engine reentrant with >= 1 nested history "
         "executed inside a sink write, every goroutine instance; distinct by case hash.",
)

import labprops  # noqa: E402  (registers C05, C14, C15 and the lab stage of C03)
labprops.register(PROPS)


def rapid_seed(seed, shard, stage):
    s = (seed * 1000003 + shard * 7919 + stage * 104729 + 12345) & 0x7fffffff
    return s or 1


def fail_dir(pid):
    d = os.path.join(os.environ.get("VERIF_OUT") or os.path.dirname(os.path.dirname(os.path.abspath(__file__))), "failures", pid)
    os.makedirs(d, exist_ok=True)
    return d


def save_failure(pid, content, suffix=".json"):
    h = hashlib.sha1(content.encode()).hexdigest()[:12]
    p = os.path.join(fail_dir(pid), h + suffix)
    open(p, "w").write(content)
    return p


def prepare(D, pid, cfg, W, race=False, tier="quick", replay=None):
    """Build parquetgen + fixtures + test binary. Returns None or (rc, violation_replay_path)."""
    if not W.build_parquetgen():
        msg = json.dumps({"property": pid, "key": pid + "/parquetgen-build", "msg": W.parquetgen_log[-4000:]}, indent=1)
        if cfg.get("gen_anchored"):
            return 1, save_failure(pid, msg)
        raise D.Infra("parquetgen does not build:\n" + W.parquetgen_log[-2000:])
    W.copy_harness()
    pkgs = []
    for fxn in cfg.get("fixtures", []):
        ok, log = W.gen_fixture(fxn)
        if not ok:
            src = open(os.path.join(W.h, "fixtures", fxn, "types.go")).read()
            msg = json.dumps({"property": pid, "key": pid + "/gen-error/fixture=" + fxn, "msg": log[-4000:], "case": {"types.go": src}}, indent=1)
            if cfg.get("gen_anchored"):
                return 1, save_failure(pid, msg)
            raise D.Infra("parquetgen failed on fixture %s:\n%s" % (fxn, log[-2000:]))
        pkgs.append("fixtures/" + fxn)
    if "prepare" in cfg:
        extra = cfg["prepare"](D, pid, cfg, W, tier, replay)
        pkgs.extend(extra or [])
    W.write_imports(pkgs)
    ok, log = W.build_tests(race=race)
    if ok and tier == "thorough" and any(st.get("kind") == "fuzz" for st in cfg.get("stages", [])):
        ok3, log3 = W.build_tests(name="props.fuzz.test", fuzz=True)
        if not ok3:
            raise D.Infra("fuzz-instrumented test binary does not build:\n" + log3[-3000:])
    if ok and cfg.get("race_bin"):
        ok2, log2 = W.build_tests(race=True, name="props.race.test")
        if not ok2:
            raise D.Infra("race-instrumented test binary does not build:\n" + log2[-3000:])
    if not ok:
        if re.search(r"fixtures/\w+/parquet\.go", log) and cfg.get("gen_anchored"):
            msg = json.dumps({"property": pid, "key": pid + "/compile-error/fixture", "msg": log[-6000:]}, indent=1)
            return 1, save_failure(pid, msg)
        raise D.Infra("harness test binary does not build:\n" + log[-3000:])
    return None


MEM_LIMIT_KB = int(os.environ.get("VERIF_MEM_LIMIT_MB", "4096")) * 1024


def _rss_kb(pid):
    try:
        for line in open("/proc/%d/status" % pid):
            if line.startswith("VmRSS:"):
                return int(line.split()[1])
    except Exception:
        pass
    return 0


def run_shard(binpath, cwd, env, args, timeout):
    """Run one test process with a wall-clock limit and a resident-memory guard.
    rc -9 = timeout, rc -99 = memory guard (both are 'inconclusive' for the caller)."""
    e = dict(os.environ)
    e.update(env)
    e.setdefault("GOMEMLIMIT", "3GiB")
    logf = tempfile.TemporaryFile(mode="w+", errors="replace")
    p = subprocess.Popen([binpath] + args, cwd=cwd, env=e, stdout=logf, stderr=subprocess.STDOUT)
    t0 = time.time()
    rc = None
    note = ""
    while True:
        try:
            rc = p.wait(timeout=0.5)
            break
        except subprocess.TimeoutExpired:
            pass
        if time.time() - t0 > timeout:
            p.kill()
            p.wait()
            rc, note = -9, "\n[driver] timeout after %ss" % timeout
            break
        if _rss_kb(p.pid) > MEM_LIMIT_KB:
            p.kill()
            p.wait()
            rc, note = -99, "\n[driver] memory guard: resident set exceeded %d MB" % (MEM_LIMIT_KB // 1024)
            break
    logf.seek(0)
    out = logf.read()
    logf.close()
    return rc, out + note


def run_replay(D, W, test, path, pid, extra_env=None, binname="props.test"):
    env = {"VERIF_REPLAY": path, "VERIF_KNOWN": os.path.join(D.VERIF, "known_findings.txt"), "VERIF_SHARD": "replay"}
    env.update(extra_env or {})
    rc, out = run_shard(os.path.join(W.bin, binname), os.path.join(W.h, "props"), env, ["-test.run", "^%s$" % test, "-test.timeout", "600s"], 700)
    if "REPLAY-KNOWN" in out:
        return "known", out
    if "REPLAY-OK" in out and rc == 0:
        return "ok", out
    if "REPLAY-FAIL" in out:
        return "fail", out
    return "infra", out


def run_property(D, pid, tier, seed, replay):
    cfg = PROPS[pid]
    t0 = time.time()
    W = D.Work(pid)
    try:
        return _run(D, pid, cfg, tier, seed, replay, W, t0)
    finally:
        W.cleanup()


def _run(D, pid, cfg, tier, seed, replay, W, t0):
    pre = prepare(D, pid, cfg, W, tier=tier, replay=replay)
    print("[driver] %s: build phase %.1fs" % (pid, time.time() - t0))
    if pre is not None:
        rc, path = pre
        print("VIOLATION property=%s replay=%s" % (pid, path))
        write_min_evidence(D, pid, cfg, tier, seed, t0, 1, "build of generated code failed; see replay file")
        return 1

    def renv(path):
        e = dict(cfg.get("env") or {})
        if "replay_env" in cfg:
            e.update(cfg["replay_env"](W, os.path.abspath(path)))
        return e

    if replay:
        st, out = run_replay(D, W, cfg["replay"], os.path.abspath(replay), pid, renv(replay))
        print(out[-6000:])
        if st == "fail":
            print("VIOLATION property=%s replay=%s" % (pid, os.path.abspath(replay)))
            return 1
        if st == "infra":
            return 2
        return 0

    violations = []
    infra = []
    # ---- replay tier: committed regression inputs
    rdir = os.path.join(D.VERIF, "replays", pid)
    replayed = 0
    known_paths = set(os.path.normpath(os.path.join(D.VERIF, k["replay"])) for k in D.known_entries(pid) if k["replay"])
    for path in sorted(glob.glob(os.path.join(rdir, "*.json"))):
        if os.path.normpath(path) in known_paths:
            continue
        st, out = run_replay(D, W, cfg["replay"], path, pid, renv(path))
        replayed += 1
        if st == "fail":
            violations.append(path)
            print(out[-3000:])
        elif st == "infra":
            infra.append("replay %s: %s" % (path, out[-1500:]))
    # ---- known findings: print a line for each that still reproduces
    known_lines = []
    deferred_known = []
    for k in D.known_entries(pid):
        if not k["replay"]:
            deferred_known.append(k)  # printed after the run, if the key was hit
            continue
        st, out = run_replay(D, W, cfg["replay"], os.path.join(D.VERIF, k["replay"]), pid, renv(os.path.join(D.VERIF, k["replay"])))
        if st == "known":
            known_lines.append("KNOWN-FINDING: property=%s %s" % (pid, k["what"]))
        elif st == "ok":
            print("[driver] note: known finding no longer reproduces: %s" % k["what"])
        elif st == "fail":
            # reproduces with a different key than listed: that is a different violation
            violations.append(os.path.join(D.VERIF, k["replay"]))
            print(out[-3000:])
        else:
            infra.append("known replay %s: %s" % (k["replay"], out[-1500:]))
    for l in known_lines:
        print(l)

    # ---- main stages
    statfiles = []
    catalogue = []
    W.catalogue = catalogue
    completed = {}
    requested = {}
    faildir = os.path.join(W.dir, "fail")
    os.makedirs(faildir, exist_ok=True)
    for si, st in enumerate(cfg["stages"]):
        total = st[tier]
        if total == 0:
            continue
        if os.environ.get("VERIF_ONLY_STAGE") and os.environ["VERIF_ONLY_STAGE"] != st["test"]:
            continue
        if st.get("premid") and "mid" in cfg:
            cfg["mid"](D, pid, cfg, W, tier, None)
        nsh = min(st.get("shards", NCPU), NCPU)
        if st["kind"] == "fuzz":
            nsh = 1  # Go's fuzzer uses all cores itself
        if st["kind"] == "rapid":
            per = max(1, total // nsh)
        jobs = []
        with cf.ThreadPoolExecutor(max_workers=nsh) as ex:
            for sh in range(nsh):
                sf = os.path.join(W.dir, "stats-%d-%d.jsonl" % (si, sh))
                statfiles.append(sf)
                env = {"VERIF_STATS": sf, "VERIF_FAILDIR": faildir, "VERIF_SHARD": "%d_%d" % (si, sh),
                       "VERIF_NSHARDS": str(nsh), "VERIF_SHARDIDX": str(sh), "VERIF_TIER": tier, "VERIF_SEED": str(seed),
                       "VERIF_KNOWN": os.path.join(D.VERIF, "known_findings.txt")}
                env.update(cfg.get("env") or {})
                env.update(st.get("env") or {})
                env["VERIF_WORKDIR"] = W.dir
                for k, v in os.environ.items():
                    if k.startswith("VERIF_C") or k == "VERIF_MAXRECS":
                        env[k] = v
                args = ["-test.run", "^%s$" % st["test"], "-test.timeout", "0"]
                if st["kind"] == "rapid":
                    args += ["-rapid.checks=%d" % per, "-rapid.seed=%d" % rapid_seed(seed, sh, si), "-rapid.nofailfile",
                             "-rapid.shrinktime=%s" % st.get("shrinktime", "20s")]
                elif st["kind"] == "fuzz":
                    # coverage-guided: cannot be pinned to a seed; a failing input is saved by the property itself (VERIF_FAILDIR)
                    os.makedirs(os.path.join(W.dir, "fuzzcache"), exist_ok=True)
                    args = ["-test.run", "^$", "-test.fuzz", "^%s$" % st["test"], "-test.fuzztime", "%ds" % total,
                            "-test.fuzzcachedir", os.path.join(W.dir, "fuzzcache"), "-test.timeout", "0", "-test.parallel", str(NCPU)]
                else:
                    env["VERIF_BUDGET"] = str(total)
                tmo = st.get("timeout_" + tier, st.get("timeout", 3000 if tier == "thorough" else 1200))
                jobs.append((sh, ex.submit(run_shard, os.path.join(W.bin, st.get("bin", "props.test")), os.path.join(W.h, "props"), env, args, tmo)))
            for sh, fut in jobs:
                rc, out = fut.result()
                if os.environ.get("VERIF_VERBOSE"):
                    print("[driver] stage %s shard %d done rc=%s at %.1fs" % (st["test"], sh, rc, time.time() - t0))
                m = re.search(r"OK, passed (\d+) tests", out)
                if m:
                    completed[st["test"]] = completed.get(st["test"], 0) + int(m.group(1))
                if st["kind"] == "rapid":
                    requested[st["test"]] = requested.get(st["test"], 0) + per
                for cl in re.findall(r"^(C\d\d)-SHAPE (\S+) (\S+) (\S+) :: (.*)$", out, re.M):
                    catalogue.append(cl)
                if rc != 0 and "WARNING: DATA RACE" in out:
                    i0 = out.index("WARNING: DATA RACE")
                    violations.append(save_failure(pid, json.dumps({"property": pid, "key": pid + "/data-race", "msg": out[i0:i0 + 6000]}, indent=1)))
                    print(out[i0:i0 + 1500])
                elif rc != 0:
                    ff = os.path.join(faildir, "%s-%d_%d.json" % (pid, si, sh))
                    if os.path.exists(ff):
                        content = open(ff).read()
                        violations.append(save_failure(pid, content))
                        print(tail_failure(out))
                    else:
                        infra.append("stage %s shard %d rc=%s:\n%s" % (st["test"], sh, rc, out[-2500:]))

    ev, distinct, labels, samples, known_hits, excluded = D.aggregate(statfiles)
    cov_extra = {}
    if "post" in cfg:
        v2, cov_extra, lines = cfg["post"](D, pid, cfg, W, tier)
        violations.extend(v2)
        for l in lines:
            print(l)
    if os.environ.get("VERIF_CATALOGUE"):
        with open(os.environ["VERIF_CATALOGUE"], "a") as cf_:
            for (p_, name, cls, shape, msg) in catalogue:
                cf_.write("known: property=%s key=%s/%s/shape=%s :: %s: %s\n" % (p_, p_, cls, shape, cls, msg[:160].replace(" :: ", " : ")))
            for l in cov_extra.get("catalogue_lines", []):
                cf_.write(l + "\n")
    hit_keys = set(known_hits) | set(cov_extra.get("known_finding_hits_build", {}))
    not_met = 0
    for k in deferred_known:
        pat = k["key"]
        hit = any(h == pat or (pat.endswith("*") and h.startswith(pat[:-1])) for h in hit_keys)
        if hit:
            print("KNOWN-FINDING: property=%s %s" % (pid, k["what"]))
        else:
            not_met += 1
            if os.environ.get("VERIF_VERBOSE"):
                print("[driver] note: listed finding not encountered in this run (tier %s): %s" % (tier, k["key"]))
    if not_met:
        print("[driver] note: %d listed findings were not encountered in this run (their inputs are outside this tier's domain or no longer fail)" % not_met)
    wall = time.time() - t0
    if ev == 0 and not violations and not infra and not replay:
        # vacuity guard: e.g. every program of C15 discarded because the tree's parquetgen generated nothing for the source structs
        infra.append("no case was evaluated (every generated program or input was discarded): the property was not examined")
    cov = {"evaluations": ev, "distinct_nontrivial": distinct, "rule": cfg["rule"], "samples": samples,
           "class_histogram": dict(sorted(labels.items())), "replayed_regression_inputs": replayed,
           "rapid_checks_requested": requested, "rapid_checks_completed": completed,
           "known_finding_hits": known_hits, "excluded_by_known_finding": excluded}
    cov.update(cov_extra)
    if cfg.get("exhaustive_" + tier):
        cov["exhaustive"] = True
    if cfg.get("programs"):
        cov["programs"] = cfg["programs"](W)
    if infra and not violations:
        cov["inconclusive"] = [i[:400] for i in infra[:5]]
    uniq = dedupe_by_key(sorted(set(violations)))
    D.write_evidence(pid, tier, seed, cfg["level"], cov, wall, len(uniq), WL_ASSUME + cfg.get("assumptions", []))
    for v in uniq:
        print("VIOLATION property=%s replay=%s" % (pid, v))
    if uniq:
        return 1
    if infra:
        for i in infra[:5]:
            print("[driver] inconclusive: " + i)
        return 2
    print("[driver] %s %s: %d cases, %d distinct non-trivial, %.1fs" % (pid, tier, ev, distinct, wall))
    return 0


def dedupe_by_key(paths):
    """Keep one replay (the smallest file) per distinct violation key."""
    best = {}
    for p in paths:
        try:
            k = json.load(open(p)).get("key", p)
        except Exception:
            k = p
        if k not in best or os.path.getsize(p) < os.path.getsize(best[k]):
            best[k] = p
    return sorted(best.values())


def tail_failure(out):
    lines = out.splitlines()
    keep = [l for l in lines if "violated" in l or "panic" in l or "FAIL" in l]
    return "\n".join(keep[-12:])


def write_min_evidence(D, pid, cfg, tier, seed, t0, violations, note):
    cov = {"evaluations": 1, "distinct_nontrivial": 0, "rule": cfg["rule"], "samples": [note]}
    D.write_evidence(pid, tier, seed, cfg["level"], cov, time.time() - t0, violations, WL_ASSUME)


def setup(D):
    """Warm the build cache and run the toolkit self-tests."""
    t0 = time.time()
    W = D.Work("setup")
    try:
        if not W.build_parquetgen():
            print(W.parquetgen_log)
            return 2
        W.copy_harness()
        pkgs = []
        for fxn in sorted(set(f for c in PROPS.values() for f in c.get("fixtures", []))):
            ok, log = W.gen_fixture(fxn)
            if ok:
                pkgs.append("fixtures/" + fxn)
            else:
                print("[setup] parquetgen failed on fixture %s (reported by the checks themselves)" % fxn)
        W.write_imports(pkgs)
        ok, log = W.build_tests()
        if not ok:
            print(log[-4000:])
            return 2
        ok2, log2 = W.build_tests(race=True, name="props.race.test")
        if not ok2:
            print(log2[-4000:])
        rc, out = D.run(["go", "test", "./pqref/...", "./vt/..."], cwd=W.h, env=D.goenv(), timeout=1200)
        print(out[-3000:])
        print("[setup] done in %.1fs" % (time.time() - t0))
        return 0 if rc == 0 else 2
    finally:
        W.cleanup()

"""Shape lab: struct-shape grammar, Go source emitter, enumerations, per-shape package builder.

A shape is a list of fields. A field is one of
  ("leaf", rep)                      rep in "r" (required), "o" (pointer), "p" (slice)
  ("group", rep, [fields])           named struct type used by value / pointer / slice
  ("embedded", [fields])             by-value embedded struct (README form)
  ("excluded", how, gotype)          how in "unexported" | "dash" | "underscore"; never a column
Leaf Go types rotate through the eight primitives in declaration order.
"""
import os, re, json, hashlib, subprocess, concurrent.futures as cf

PRIMS = ["int32", "string", "bool", "int64", "float64", "uint32", "float32", "uint64"]
REP_PREFIX = {"r": "", "o": "*", "p": "[]"}


def notation(fields):
    out = []
    for f in fields:
        if f[0] == "leaf":
            out.append(REP_PREFIX[f[1]] + "x")
        elif f[0] in ("group", "groupref"):
            out.append(REP_PREFIX[f[1]] + "{" + notation(f[2]) + "}")
        elif f[0] == "embedded":
            out.append("<" + notation(f[1]) + ">")
        elif f[0] == "excluded":
            out.append("!" + f[1] + ":" + f[2])
    return ",".join(out)


KIND_ABBR = {"int32": "i32", "uint32": "u32", "int64": "i64", "uint64": "u64", "float32": "f32", "float64": "f64", "bool": "b", "string": "s"}


def annotate(fields, prims=None, prim_offset=0, tag_all=False):
    """Give every column field a fixed name, tag and (for leaves) Go type, in declaration order:
      ("leaf", rep, name, tag, prim)   ("group", rep, fields, name, tag)   embedded/excluded unchanged.
    Already annotated fields are kept, so program transformations preserve names and types."""
    prims = prims or PRIMS
    ctr = {"f": 0, "p": prim_offset}

    def walk(fs):
        out = []
        for f in fs:
            if f[0] == "leaf":
                if len(f) >= 5:
                    out.append(f)
                    continue
                ctr["f"] += 1
                name = "N%d" % ctr["f"]
                tag = name.lower() if (ctr["f"] % 2 == 1 or tag_all) else ""
                out.append(("leaf", f[1], name, tag, prims[ctr["p"] % len(prims)]))
                ctr["p"] += 1
            elif f[0] == "group":
                if len(f) >= 5:
                    out.append(("group", f[1], walk(f[2]), f[3], f[4]))
                    continue
                ctr["f"] += 1
                name = "N%d" % ctr["f"]
                tag = name.lower() if (ctr["f"] % 2 == 1 or tag_all) else ""
                out.append(("group", f[1], walk(f[2]), name, tag))
            elif f[0] == "embedded":
                out.append(("embedded", walk(f[1])) + tuple(f[2:]))
            else:
                out.append(f)
        return out
    return walk(fields)


def typed_notation(fields, prim_offset=0, prims=None):
    """The notation vt.Node.Notation() produces for the emitted struct (embedded inlined, excluded dropped)."""
    fields = annotate(fields, prims=prims, prim_offset=prim_offset)

    def walk(fs):
        out = []
        for f in fs:
            if f[0] == "leaf":
                out.append(REP_PREFIX[f[1]] + KIND_ABBR[f[4]])
            elif f[0] in ("group", "groupref"):
                out.append(REP_PREFIX[f[1]] + "{" + walk(f[2]) + "}")
            elif f[0] == "embedded":
                w = walk(f[1])
                if w:
                    out.append(w)
        return ",".join(out)
    return "{" + walk(fields) + "}"


def column_paths(fields, prim_offset=0, prims=None, tag_all=False):
    fields = annotate(fields, prims=prims, prim_offset=prim_offset, tag_all=tag_all)
    out = []

    def walk(fs, path):
        for f in fs:
            if f[0] == "leaf":
                out.append(".".join(path + [f[3] or f[2]]))
            elif f[0] in ("group", "groupref"):
                walk(f[2], path + [f[4] or f[3]])
            elif f[0] == "embedded":
                walk(f[1], path)
    walk(fields, [])
    return out


class Emitter:
    """Emits types.go for an (annotated) shape."""

    def __init__(self, pkg):
        self.pkg = pkg
        self.types = []
        self.ntype = 0
        self.nx = 0
        self.declared = set()
        self.last_leaf_line = -1
        self.topdown = False
        self.multikey = False
        self.grouped = False
        self.ntag = 0

    def struct(self, name, fields):
        lines = []
        last_leaf_line = -1
        for f in fields:
            if f[0] == "leaf":
                tag = ' `parquet:"%s"`' % f[3] if f[3] else ""
                self.ntag += 1
                if f[3] and self.multikey and self.ntag % 2 == 0:
                    # another key in front of the parquet key, as structs shared with encoding/json have
                    tag = ' `json:"%s,omitempty" parquet:"%s"`' % (f[2].lower(), f[3])
                lines.append("\t%s %s%s%s" % (f[2], REP_PREFIX[f[1]], f[4], tag))
                last_leaf_line = len(lines) - 1
            elif f[0] == "group":
                tn = "T" + f[3]
                self.struct(tn, f[2])
                tag = ' `parquet:"%s"`' % f[4] if f[4] else ""
                lines.append("\t%s %s%s%s" % (f[3], REP_PREFIX[f[1]], tn, tag))
            elif f[0] == "embedded":
                self.ntype += 1
                # names both of the kind E1 and of the usual CamelCase kind (Base2): the generator inspects the spelling of an embedded type's name
                tn = f[2] if len(f) > 2 else ("E%d" if self.ntype % 2 else "Base%d") % self.ntype
                if tn not in self.declared:
                    self.declared.add(tn)
                    self.struct(tn, f[1])
                # every other embedded field (by position) carries a tag of another package (structs shared with encoding/json do): still an embedded field
                lines.append("\t%s%s" % (tn, ' `json:",inline"`' if (self.ntype + len(lines)) % 2 == 0 else ""))
            elif f[0] == "groupref":
                # ("groupref", rep, fields, name, tag, typename): a group whose struct type is declared elsewhere (type reuse)
                tn = f[5]
                if tn not in self.declared:
                    self.declared.add(tn)
                    self.struct(tn, f[2])
                tag = ' `parquet:"%s"`' % f[4] if f[4] else ""
                lines.append("\t%s %s%s%s" % (f[3], REP_PREFIX[f[1]], tn, tag))
            elif f[0] == "excluded" and f[1] == "joined":
                # an unexported name added to the previous leaf's declaration:  N3, x7 int32 `parquet:"n3"`
                self.nx += 1
                if lines and last_leaf_line == len(lines) - 1:
                    # the declaration may already name several fields (N3, x7): add the new name after the last one
                    m = re.match(r"^\t((?:\w+, )*\w+) (.*)$", lines[-1])
                    lines[-1] = "\t%s, x%d %s" % (m.group(1), self.nx, m.group(2))
                else:
                    lines.append("\tx%d, y%d int32" % (self.nx, self.nx))
            elif f[0] == "excluded":
                how, gt = f[1], f[2]
                self.nx += 1
                if how == "embedded-dash":
                    lines.append('\t%s `parquet:"-"`' % gt)
                elif how == "embedded-unexported":
                    # an embedded struct whose type name is unexported is an unexported field
                    lines.append("\t%s" % gt)
                elif how == "dash" and self.multikey:
                    lines.append('\tX%d %s `json:"-" parquet:"-"`' % (self.nx, gt))
                elif how == "dash":
                    lines.append('\tX%d %s `parquet:"-"`' % (self.nx, gt))
                elif how == "underscore":
                    lines.append("\t_x%d %s" % (self.nx, gt))
                elif how == "nonascii":
                    lines.append("\t\u00e9x%d %s" % (self.nx, gt))
                else:
                    lines.append("\tx%d %s" % (self.nx, gt))
        self.types.append("type %s struct {\n%s\n}\n" % (name, "\n".join(lines)))

    def source(self, fields, imports=(), extra=""):
        self.struct("Rec", fields)
        imp = ""
        if imports:
            imp = "import (\n" + "".join('\t"%s"\n' % i for i in imports) + ")\n\n"
        types = list(reversed(self.types)) if self.topdown else self.types  # top-down: outer types are declared before the types they use
        if self.grouped:
            # one parenthesised declaration:  type ( Rec struct{...}; TN2 struct{...} )
            body = "\n".join(t.replace("type ", "", 1) for t in types)
            return "package %s\n\n%s%stype (\n%s)\n" % (self.pkg, imp, extra, body)
        return "package %s\n\n%s%s%s" % (self.pkg, imp, extra, "\n".join(types))


def emit(pkg, fields, prim_offset=0, imports=(), tag_all=False, prims=None, extra="", topdown=False, multikey=False, grouped=False):
    e = Emitter(pkg)
    e.topdown = topdown
    e.multikey = multikey
    e.grouped = grouped
    return e.source(annotate(fields, prims=prims, prim_offset=prim_offset, tag_all=tag_all), imports, extra)


# ---------------------------------------------------------------------------
# enumerations

REPS = ["r", "o", "p"]


def e1_children():
    """child options for E1: a leaf, or a group with 1..2 leaf children."""
    out = [("leaf", r) for r in REPS]
    for gr in REPS:
        for a in REPS:
            out.append(("group", gr, [("leaf", a)]))
            for b in REPS:
                out.append(("group", gr, [("leaf", a), ("leaf", b)]))
    return out


def enum_e1():
    """all shapes with <= 2 children per struct and group depth <= 1 (1560 shapes)."""
    ch = e1_children()
    shapes = [[c] for c in ch]
    for a in ch:
        for b in ch:
            shapes.append([a, b])
    return shapes


SIBLINGS = {"none": None, "req": ("leaf", "r"), "opt": ("leaf", "o"), "rep": ("leaf", "p"), "optgroup": ("group", "o", [("leaf", "r")])}


def enum_e2(max_depth=3, siblings=("none", "req", "opt", "rep", "optgroup")):
    """every column context to the given depth: for each ancestor level (r|o|p) x (first child | later child),
    realised as a minimal struct; later-child positions get one earlier sibling of each kind."""
    shapes = []
    seen = set()

    def build(chain, leaf_rep, sib_kinds):
        # chain: list of (rep, later: bool) for group ancestors, outermost first; leaf has (leaf_rep, later)
        def rec(i):
            if i == len(chain):
                node = ("leaf", leaf_rep[0])
                later = leaf_rep[1]
            else:
                node = ("group", chain[i][0], rec(i + 1))
                later = chain[i][1]
            if later:
                return [SIBLINGS[sib_kinds[i]], node]
            return [node]
        return rec(0)

    import itertools
    for depth in range(0, max_depth + 1):  # number of group ancestors
        for reps in itertools.product(REPS, repeat=depth + 1):
            for laters in itertools.product([False, True], repeat=depth + 1):
                nl = sum(laters)
                kinds = [k for k in siblings if k != "none"]
                for sk in (itertools.product(kinds, repeat=nl) if nl else [()]):
                    it = iter(sk)
                    sib = [next(it) if l else "none" for l in laters]
                    chain = list(zip(reps[:-1], laters[:-1]))
                    fields = build(chain, (reps[-1], laters[-1]), sib)
                    n = notation(fields)
                    if n not in seen:
                        seen.add(n)
                        shapes.append(fields)
    return shapes


def enum_e3():
    """a fixed stratified list of composite shapes (depth 2/3, several children, embedded structs)."""
    L = lambda r: ("leaf", r)
    G = lambda r, *f: ("group", r, list(f))
    E = lambda *f: ("embedded", list(f))
    out = []
    for gr in REPS:
        for ir in REPS:
            out.append([L("r"), G(gr, L("r"), G(ir, L("r"), L("o")), L("o"))])
            out.append([G(gr, G(ir, L("p"), L("r"))), L("p")])
            out.append([G(gr, L("r"), L("o"), L("p")), G(ir, L("r"), L("o"), L("p"))])
            out.append([E(L("r"), L("o")), G(gr, L("r"), G(ir, L("r")))])
            out.append([L("o"), E(L("r"), G(gr, L("r"), L("o"))), G(ir, L("r"))])
    out.append([E(E(L("r")), L("o")), L("p")])
    # chains of optional groups: max definition level 8 and 15 (4-bit levels, the widest the level codec takes)
    for depth in (7, 14):
        ch = [L("o"), L("r")]
        for _ in range(depth):
            ch = [G("o", *ch)]
        out.append([L("r")] + ch)
    out.append([L("r"), L("o"), L("p"), L("r"), L("o"), L("p"), L("r"), L("o"), L("p")])
    return out


# ---------------------------------------------------------------------------
# building

def go_env():
    e = dict(os.environ)
    e.update({"GOPROXY": "off", "GOSUMDB": "off", "GOTOOLCHAIN": "local", "GOFLAGS": "-mod=mod -trimpath"})
    return e


def gen_one(W, name, src, determinism=True):
    """Write lab/<name>/types.go and run parquetgen (twice when determinism is checked).
    Returns dict(name, ok, cls, log)."""
    d = os.path.join(W.h, "lab", name)
    os.makedirs(d, exist_ok=True)
    open(os.path.join(d, "types.go"), "w").write(src)
    pg = os.path.join(W.bin, "parquetgen")
    outs = []
    for run in range(2 if determinism else 1):
        target = "parquet.go" if run == 0 else "parquet2.go.txt"
        try:
            p = subprocess.run([pg, "-input", "types.go", "-type", "Rec", "-package", name, "-output", target], cwd=d,
                               stdout=subprocess.PIPE, stderr=subprocess.STDOUT, text=True, timeout=120, errors="replace")
        except subprocess.TimeoutExpired:
            return dict(name=name, ok=False, cls="gen-timeout", log="parquetgen timed out")
        if p.returncode != 0 or not os.path.exists(os.path.join(d, target)):
            log = p.stdout
            # keep the log short: the generator prints the whole source on gofmt errors
            m = re.search(r"err: (.*?), gocode:", log, re.S)
            short = m.group(1) if m else log[:600]
            return dict(name=name, ok=False, cls="gen-error", log=short[:600])
        outs.append(open(os.path.join(d, target)).read())
    if determinism:
        os.remove(os.path.join(d, "parquet2.go.txt"))
        if outs[0] != outs[1]:
            return dict(name=name, ok=False, cls="nondeterministic", log="two runs of parquetgen on the same input produced different output")
    tmpl = open(os.path.join(W.h, "fixtures", "adapter.go.tmpl")).read()
    open(os.path.join(d, "adapter.go"), "w").write(tmpl.replace("PKGNAME", name).replace("FIXNAME", name))
    return dict(name=name, ok=True, cls="", log="")


def build_all(W, names):
    """go build ./lab/... ; returns {name: compile log} for packages that do not compile."""
    bad = {}
    if not names:
        return bad
    p = subprocess.run(["go", "build", "-tags", "verif", "./lab/..."], cwd=W.h, env=go_env(), stdout=subprocess.PIPE, stderr=subprocess.STDOUT,
                       text=True, errors="replace")
    cur = None
    for line in p.stdout.splitlines():
        m = re.match(r"# verifharness/lab/(\w+)", line)
        if m:
            cur = m.group(1)
            bad[cur] = ""
            continue
        if cur is not None:
            bad[cur] += line + "\n"
        elif line.strip():
            bad.setdefault("_other", "")
            bad["_other"] += line + "\n"
    return bad


def build_lab(W, shapes, prefix="s", determinism=True, emit_kw=None):
    """shapes: list of (fields) or (name, fields, kwargs). Returns list of result dicts with keys
    name, notation, cls ('' = built), log."""
    items = []
    for i, s in enumerate(shapes):
        if isinstance(s, tuple) and isinstance(s[0], str) and len(s) == 3 and isinstance(s[2], dict):
            name, fields, kw = s
        else:
            name, fields, kw = "%s%04d" % (prefix, i), s, dict(emit_kw or {})
        items.append((name, fields, kw))
    res = {}
    with cf.ThreadPoolExecutor(max_workers=os.cpu_count() or 4) as ex:
        futs = {}
        for name, fields, kw in items:
            src = emit(name, fields, **kw)
            futs[ex.submit(gen_one, W, name, src, determinism)] = (name, fields, kw, src)
        for fut in cf.as_completed(futs):
            name, fields = futs[fut][0], futs[fut][1]
            r = fut.result()
            r["notation"] = notation(fields)
            kw_ = futs[fut][2] or {}
            r["typed"] = typed_notation(fields, kw_.get("prim_offset", 0), kw_.get("prims"))
            r["source"] = futs[fut][3]
            res[name] = r
    ok = [n for n, r in res.items() if r["ok"]]
    bad = build_all(W, ok)
    if "_other" in bad:
        raise RuntimeError("go build ./lab/... failed outside lab packages:\n" + bad["_other"][:2000])
    for n, log in bad.items():
        if n in res:
            res[n]["ok"] = False
            res[n]["cls"] = "compile-error"
            # first error line without the temp path
            first = [l for l in log.splitlines() if l.strip()][:3]
            res[n]["log"] = re.sub(r"\S*/lab/", "lab/", "\n".join(first))[:600]
            # remove the package so that the rest still builds
            for fn in ("parquet.go", "adapter.go"):
                try:
                    os.remove(os.path.join(W.h, "lab", n, fn))
                except OSError:
                    pass
    return [res[name] for name, _, _ in items]

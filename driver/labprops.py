"""Properties decided in the shape lab: C05 (and the lab stages of C03/C14/C15)."""
import os, json, glob
import lab


def is_known(D, pid, key):
    for k in D.known_entries(pid):
        pat = k["key"]
        if pat == key or (pat.endswith("*") and key.startswith(pat[:-1])):
            return True
    return False


def c05_shapes(tier):
    e1 = lab.enum_e1()
    e3 = lab.enum_e3()
    if tier == "thorough":
        return e1 + lab.enum_e2(2) + e3
    # quick: every context with a required earlier sibling, every 8th E1 shape, all composites
    return lab.enum_e2(2, ("none", "req")) + e1[::8] + e3


def c05_prepare(D, pid, cfg, W, tier, replay):
    pkgs = []
    W.replay_pkgs = {}
    # regression inputs and (for --replay) the file given: each is a shape source
    paths = sorted(glob.glob(os.path.join(D.VERIF, "replays", pid, "*.json")))
    for k in D.known_entries(pid):
        if k["replay"]:
            paths.append(os.path.join(D.VERIF, k["replay"]))
    if replay:
        paths = [os.path.abspath(replay)]
    items = []
    for i, p in enumerate(paths):
        try:
            c = json.load(open(p))["case"]
        except Exception:
            continue
        name = "r%04d" % i
        src = c.get("types.go", "")
        if not src:
            continue
        src = src.replace("package " + c.get("name", "s0000"), "package " + name, 1)
        items.append((name, p, src))
    for name, p, src in items:
        r = lab.gen_one(W, name, src, determinism=True)
        W.replay_pkgs[p] = (name, r)
    ok = [W.replay_pkgs[p][0] for p in W.replay_pkgs if W.replay_pkgs[p][1]["ok"]]
    bad = lab.build_all(W, ok)
    for p, (name, r) in W.replay_pkgs.items():
        if name in bad:
            r["ok"], r["cls"], r["log"] = False, "compile-error", bad[name][:600]
            for fn in ("parquet.go", "adapter.go"):
                try:
                    os.remove(os.path.join(W.h, "lab", name, fn))
                except OSError:
                    pass
        elif r["ok"]:
            pkgs.append("lab/" + name)
    W.lab = []
    if not replay:
        shapes = c05_shapes(tier)
        W.lab = lab.build_lab(W, shapes, prefix="s")
        pkgs += ["lab/" + r["name"] for r in W.lab if r["ok"]]
    return pkgs


def c05_replay_env(W, path):
    name, r = W.replay_pkgs.get(path, ("r0000", {"ok": False, "cls": "gen-error", "typed": "?"}))
    e = {"VERIF_REPLAY_PKG": name}
    if not r["ok"]:
        try:
            c = json.load(open(path))
            e["VERIF_REPLAY_BUILDKEY"] = "C05/%s/shape=%s" % (r["cls"], c["case"].get("shape", "?"))
        except Exception:
            e["VERIF_REPLAY_BUILDKEY"] = "C05/%s/shape=?" % r["cls"]
    return e


def c05_post(D, pid, cfg, W, tier):
    """Loud generation/compile failures are violations too (unless listed): no behaviour of code that does not exist can satisfy the property."""
    violations, lines = [], []
    counts = {}
    hits = {}
    import props as P
    for r in W.lab:
        cls = r["cls"] or "built"
        counts[cls] = counts.get(cls, 0) + 1
        if r["ok"]:
            continue
        key = "C05/%s/shape=%s" % (r["cls"], r["typed"])
        if is_known(D, pid, key):
            hits[key] = hits.get(key, 0) + 1
            continue
        msg = json.dumps({"property": pid, "key": key, "msg": r["log"], "case": {"name": r["name"], "shape": r["typed"], "types.go": r["source"]}}, indent=1)
        violations.append(P.save_failure(pid, msg))
    cat = []
    for r in W.lab:
        if not r["ok"]:
            first = (r["log"].strip().splitlines() or [""])[0]
            cat.append("known: property=%s key=C05/%s/shape=%s :: %s: %s" % (pid, r["cls"], r["typed"], r["cls"], first[:160].replace(" :: ", " : ")))
    cov = {"programs": len(W.lab), "program_build_classes": counts, "known_finding_hits_build": hits, "catalogue_lines": cat}
    return violations, cov, lines


def register(PROPS):
    PROPS["C05"] = dict(
        level="exploration",
        technique="bounded-exhaustive enumeration of struct programs x structural value enumeration; each generated package judged by determinism, compilation, round-trip, independent file walker and independent Dremel shredder",
        level_text="Exploration over programs: every struct shape of a bounded grammar (all shapes with <= 2 children per struct and one group level; every column context "
                   "to three levels with each kind of earlier sibling; a stratified list of composites with embedded structs) is generated with the working tree's parquetgen, compiled, "
                   "and run over its structural value space (every nil/non-nil and list-length combination up to a cap) against the C01/C02/C03 oracles.",
        level_note="Trusted: pqref, the reflection bridge, the Go compiler. Failing shapes already catalogued in known_findings.txt are matched by exact shape and failure class; "
                   "a catalogued shape that fails in a different class, or a new failing shape, is a violation.",
        fixtures=[],
        gen_anchored=True,
        exhaustive_quick=False, exhaustive_thorough=True,
        prepare=c05_prepare, post=c05_post, replay_env=c05_replay_env,
        stages=[dict(test="TestC05", kind="enum", quick=1, thorough=1, timeout_thorough=5400)],
        replay="TestReplayC05",
        rule="programs: quick = every column context with <= 2 group ancestors realised as a minimal struct with a required earlier sibling where the context says 'later child' (258) + every 8th "
             "shape of E1 + 47 composites; thorough = E1 (all 1560 shapes with <= 2 children per struct and group depth <= 1) + E2 (3615 context structs: each ancestor r|o|p x first/later child x "
             "earlier sibling in {required, optional, repeated leaf, optional group}) + composites; leaf types rotate through the 8 primitives. Per program: parquetgen twice (byte-identical output), "
             "go build, then for up to 120 structurally distinct records (all of them when fewer; label value-space-complete) three workloads (one batch/large pages/uncompressed; two batches/page size 1/snappy; "
             "two batches/page size 3/gzip): read back == written, file valid under the C02 walker, column data == reference striping and reassembles. evaluations = records judged; every judged "
             "record set is non-trivial (distinct structural values); class histogram gives verdict per program.",
    )

"""Properties decided in the shape lab: C05 (and the lab stages of C03/C14/C15)."""
import os, json, glob, subprocess
import lab


def is_known(D, pid, key):
    for k in D.known_entries(pid):
        pat = k["key"]
        if pat == key or (pat.endswith("*") and key.startswith(pat[:-1])):
            return True
    return False


def c05_shapes(tier):
    e1 = lab.enum_e1()
    e3 = lab.enum_e3()
    if tier == "thorough":
        # + every column context with three group ancestors (required earlier sibling where the context says 'later child')
        deep = [f for f in lab.enum_e2(3, ("none", "req")) if lab.notation(f).count("{") >= 3]
        return e1 + lab.enum_e2(2) + e3 + deep
    # quick: every context with a required earlier sibling, every 8th E1 shape, all composites
    return lab.enum_e2(2, ("none", "req")) + e1[::8] + e3


C05_NAMED = [
    # (label, types.go body): hand-written programs whose interesting feature is in the *names*, which the shape notation does not carry
    ("field-name-concatenation-collision", """
type Name struct {
	ID    int32  `parquet:"id"`
	Value string `parquet:"value"`
}

type User struct {
	Name   Name  `parquet:"name"`
	Length int64 `parquet:"length"`
}

type UserName struct {
	Value  *string `parquet:"value"`
	Length int32   `parquet:"length"`
}

type Rec struct {
	User     User     `parquet:"user"`
	UserName UserName `parquet:"username"`
}
"""),
    ("one-struct-type-used-for-three-groups", """
type Pt struct {
	X int32  `parquet:"x"`
	Y *int32 `parquet:"y"`
}

type Rec struct {
	A Pt   `parquet:"a"`
	B *Pt  `parquet:"b"`
	C []Pt `parquet:"c"`
	N int64
}
"""),
    ("several-names-in-one-field-declaration", """
type Inner struct {
	P, Q int64
	R    *string `parquet:"r"`
}

type Rec struct {
	A, B  int32
	C, d  string
	In    Inner
	X, Y  *float64
	Tags  []string
}
"""),
    ("types-in-one-parenthesised-declaration-with-multi-key-tags", """
type (
	Rec struct {
		ID   int32   `json:"id" parquet:"id"`
		Loc  Point   `json:"loc" parquet:"loc"`
		Home *Addr   `json:"home,omitempty" parquet:"home"`
		Tags []string `parquet:"tags" json:"tags"`
		Skip string  `json:"-" parquet:"-"`
	}
	Point struct {
		X, Y float64
	}
	Addr struct {
		City string  `json:"city" parquet:"city"`
		Zip  *string `json:"zip" parquet:"zip"`
	}
)
"""),
    ("untagged-and-mixed-case-tags", """
type Inner struct {
	CamelCase string
	Snake_x   *int64 `parquet:"snake_x"`
	UPPER     []bool `parquet:"UPPER"`
}

type Rec struct {
	ID    int32
	Inner Inner
	Opt   *Inner `parquet:"Opt_Inner"`
}
"""),
]


def c05_prepare(D, pid, cfg, W, tier, replay):
    pkgs = []
    W.replay_pkgs = {}
    # regression inputs and (for --replay) the file given: each is a shape source
    paths = sorted(glob.glob(os.path.join(D.VERIF, "replays", pid, "*.json")))
    for k in D.known_entries(pid):
        if k["replay"]:
            paths.append(os.path.join(D.VERIF, k["replay"]))
    if replay:
        paths = [os.path.abspath(replay)]
    items = []
    for i, p in enumerate(paths):
        try:
            c = json.load(open(p))["case"]
        except Exception:
            continue
        name = "r%04d" % i
        src = c.get("types.go", "")
        if not src:
            continue
        src = src.replace("package " + c.get("name", "s0000"), "package " + name, 1)
        items.append((name, p, src))
    for name, p, src in items:
        r = lab.gen_one(W, name, src, determinism=True)
        W.replay_pkgs[p] = (name, r)
    ok = [W.replay_pkgs[p][0] for p in W.replay_pkgs if W.replay_pkgs[p][1]["ok"]]
    bad = lab.build_all(W, ok)
    for p, (name, r) in W.replay_pkgs.items():
        if name in bad:
            r["ok"], r["cls"], r["log"] = False, "compile-error", bad[name][:600]
            for fn in ("parquet.go", "adapter.go"):
                try:
                    os.remove(os.path.join(W.h, "lab", name, fn))
                except OSError:
                    pass
        elif r["ok"]:
            pkgs.append("lab/" + name)
    W.lab = []
    if not replay:
        shapes = c05_shapes(tier)
        W.lab = lab.build_lab(W, shapes, prefix="s")
        pkgs += ["lab/" + r["name"] for r in W.lab if r["ok"]]
        # named programs
        named = []
        for i, (label, body) in enumerate(C05_NAMED):
            name = "n%04d" % i
            src = "package %s\n%s" % (name, body)
            r = lab.gen_one(W, name, src, determinism=True)
            r["notation"] = r["typed"] = "named=" + label
            r["source"] = src
            named.append(r)
        bad = lab.build_all(W, [r["name"] for r in named if r["ok"]])
        for r in named:
            if r["ok"] and r["name"] in bad:
                r["ok"], r["cls"] = False, "compile-error"
                r["log"] = "\n".join([l for l in bad[r["name"]].splitlines() if l.strip()][:3])[:600]
                for fn in ("parquet.go", "adapter.go"):
                    try:
                        os.remove(os.path.join(W.h, "lab", r["name"], fn))
                    except OSError:
                        pass
        W.lab += named
        pkgs += ["lab/" + r["name"] for r in named if r["ok"]]
    return pkgs


def c05_replay_env(W, path):
    name, r = W.replay_pkgs.get(path, ("r0000", {"ok": False, "cls": "gen-error", "typed": "?"}))
    e = {"VERIF_REPLAY_PKG": name}
    if not r["ok"]:
        try:
            c = json.load(open(path))
            e["VERIF_REPLAY_BUILDKEY"] = "C05/%s/shape=%s" % (r["cls"], c["case"].get("shape", "?"))
        except Exception:
            e["VERIF_REPLAY_BUILDKEY"] = "C05/%s/shape=?" % r["cls"]
    return e


def c05_post(D, pid, cfg, W, tier):
    """Loud generation/compile failures are violations too (unless listed): no behaviour of code that does not exist can satisfy the property."""
    violations, lines = [], []
    counts = {}
    hits = {}
    import props as P
    for r in W.lab:
        cls = r["cls"] or "built"
        counts[cls] = counts.get(cls, 0) + 1
        if r["ok"]:
            continue
        key = "C05/%s/shape=%s" % (r["cls"], r["typed"])
        if r["typed"].startswith("named="):
            key = "C05/%s/%s" % (r["cls"], r["typed"])
        if is_known(D, pid, key):
            hits[key] = hits.get(key, 0) + 1
            continue
        msg = json.dumps({"property": pid, "key": key, "msg": r["log"], "case": {"name": r["name"], "shape": r["typed"], "types.go": r["source"]}}, indent=1)
        violations.append(P.save_failure(pid, msg))
    cat = []
    for r in W.lab:
        if not r["ok"]:
            first = (r["log"].strip().splitlines() or [""])[0]
            kk = ("C05/%s/%s" if r["typed"].startswith("named=") else "C05/%s/shape=%s") % (r["cls"], r["typed"])
            cat.append("known: property=%s key=%s :: %s: %s" % (pid, kk, r["cls"], first[:160].replace(" :: ", " : ")))
    cov = {"programs": len(W.lab), "program_build_classes": counts, "known_finding_hits_build": hits, "catalogue_lines": cat}
    return violations, cov, lines


def register(PROPS):
    PROPS["C05"] = dict(
        level="exploration",
        technique="bounded-exhaustive enumeration of struct programs x structural value enumeration; each generated package judged by determinism, compilation, round-trip, independent file walker and independent Dremel shredder",
        level_text="Exploration over programs: every struct shape of a bounded grammar (all shapes with <= 2 children per struct and one group level; every column context "
                   "to three levels with each kind of earlier sibling; a stratified list of composites with embedded structs) is generated with the working tree's parquetgen, compiled, "
                   "and run over its structural value space (every nil/non-nil and list-length combination up to a cap) against the C01/C02/C03 oracles.",
        level_note="Trusted: pqref, the reflection bridge, the Go compiler. Failing shapes already catalogued in known_findings.txt are matched by exact shape and failure class; "
                   "a catalogued shape that fails in a different class, or a new failing shape, is a violation.",
        fixtures=[],
        gen_anchored=True,
        exhaustive_quick=False, exhaustive_thorough=True,
        prepare=c05_prepare, post=c05_post, replay_env=c05_replay_env,
        stages=[dict(test="TestC05", kind="enum", quick=1, thorough=1, timeout_thorough=5400)],
        replay="TestReplayC05",
        rule="programs: quick = every column context with <= 2 group ancestors realised as a minimal struct with a required earlier sibling where the context says 'later child' (258) + every 8th "
             "shape of E1 + 47 composites + 5 hand-written programs whose feature the shape notation does not carry (name-concatenation collision, one struct type used for three groups, several names in one field declaration, one parenthesised type declaration with multi-key tags, untagged / mixed-case tags); thorough = E1 (all 1560 shapes with <= 2 children per struct and group depth <= 1) + E2 (3615 context structs: each ancestor r|o|p x first/later child x "
             "earlier sibling in {required, optional, repeated leaf, optional group}) + 1296 context structs with three group ancestors (required earlier sibling) + composites; leaf types rotate through the 8 primitives. Per program: parquetgen twice (byte-identical output), "
             "go build, then for up to 120 structurally distinct records (all of them when fewer; label value-space-complete) three workloads (one batch/large pages/uncompressed; two batches/page size 1/snappy; "
             "two batches/page size 3/gzip): read back == written, file valid under the C02 walker, column data == reference striping and reassembles. evaluations = records judged; every judged "
             "record set is non-trivial (distinct structural values); class histogram gives verdict per program.",
    )


# ---------------------------------------------------------------------------
# C14: excluded fields are inert, embedding equals inlining (metamorphic over programs)

import random

EXCL_TYPES = [
    # (go type, class, imports, aux declarations needed)
    ("int32", "primitive", (), ""),
    ("string", "primitive", (), ""),
    ("*float64", "primitive-ptr", (), ""),
    ("[]bool", "primitive-slice", (), ""),
    ("int", "basic", (), ""),
    ("uint8", "basic", (), ""),
    ("[]byte", "basic-slice", (), ""),
    ("[4]int32", "array", (), ""),
    ("map[string]int32", "map", (), ""),
    ("chan int32", "chan", (), ""),
    ("func(int32) string", "func-unnamed", (), ""),
    ("func(Z int32) (Err error)", "func-named", (), ""),
    ("struct{ A int32 }", "anon-struct", (), ""),
    ("struct {\n\t\tB *string\n\t\tC []int64\n\t}", "anon-struct", (), ""),
    ("interface{ M(x int32) string }", "interface", (), ""),
    ("interface{}", "interface", (), ""),
    ("Aux", "named-struct", (), "type Aux struct {\n\tQ int32\n\tR *string\n}\n\n"),
    ("*Aux", "named-struct-ptr", (), "type Aux struct {\n\tQ int32\n\tR *string\n}\n\n"),
    ("[]Aux", "named-struct-slice", (), "type Aux struct {\n\tQ int32\n\tR *string\n}\n\n"),
    ("aux1", "embedded-unexported-struct", (), "type aux1 struct {\n\tRev int32\n\tBy  string\n}\n\n"),
    ("Audit", "embedded-exported-struct-dash-tagged", (), "type Audit struct {\n\tRev int32\n\tBy  *string\n}\n\n"),
    ("int32", "second-name-in-a-column-declaration", (), ""),
    ("time.Time", "qualified", ("time",), ""),
    ("*time.Duration", "qualified", ("time",), ""),
]
EXCL_HOW_QUICK = ["unexported", "dash", "nonascii"]
EXCL_HOW_THOROUGH = ["unexported", "dash", "underscore", "nonascii"]


def healthy_bases(D):
    """annotated shapes of the C05 grammar that are not listed as failing, plus the fixture-like composites."""
    bad = set()
    for k in D.known_entries("C05"):
        m = k["key"].split("/shape=")
        if len(m) == 2:
            bad.add(m[1])
    out = []
    seen = set()
    for f in lab.enum_e1() + lab.enum_e2(2, ("none", "req", "opt")) + lab.enum_e3():
        if any(x[0] == "embedded" for x in f):
            continue
        n = lab.typed_notation(f)
        if n in bad or n in seen:
            continue
        seen.add(n)
        out.append(lab.annotate(f))
    return out


def structs_of(fields, path=()):
    """all (path, fieldlist) pairs: the root struct and every group/embedded struct."""
    out = [(path, fields)]
    for i, f in enumerate(fields):
        if f[0] == "group":
            out += structs_of(f[2], path + (i,))
        elif f[0] == "embedded":
            out += structs_of(f[1], path + (i,))
    return out


def replace_at(fields, path, fn):
    """returns a copy of fields with the struct at path replaced by fn(its field list)."""
    if not path:
        return fn(list(fields))
    i = path[0]
    f = fields[i]
    out = list(fields)
    if f[0] == "group":
        out[i] = ("group", f[1], replace_at(f[2], path[1:], fn), f[3], f[4])
    else:
        out[i] = ("embedded", replace_at(f[1], path[1:], fn))
    return out


def c14_pairs(D, tier, seed):
    rnd = random.Random(1000003 * seed + (17 if tier == "thorough" else 5))
    bases = healthy_bases(D)
    n = 2000 if tier == "thorough" else 52
    hows = EXCL_HOW_THOROUGH if tier == "thorough" else EXCL_HOW_QUICK
    pairs = []
    for k in range(n):
        base = bases[rnd.randrange(len(bases))] if k >= len(EXCL_TYPES) else bases[(k * 37) % len(bases)]
        dec = base
        desc = []
        imports, aux = set(), ""
        kind = rnd.choice(["excl", "excl", "embed", "both"]) if k >= len(EXCL_TYPES) else "excl"
        if kind in ("excl", "both"):
            cnt = rnd.randint(1, 4) if k >= len(EXCL_TYPES) else 1
            for j in range(cnt):
                # the first len(EXCL_TYPES) pairs walk through every excluded type once
                gt, cls, imp, ax = EXCL_TYPES[k % len(EXCL_TYPES)] if (k < len(EXCL_TYPES) and j == 0) else rnd.choice(EXCL_TYPES)
                how = rnd.choice(hows)
                if cls == "embedded-unexported-struct":
                    how = "embedded-unexported"
                    if any("embedded-unexported" in d for d in desc):
                        continue  # one embedded aux1 per program (a second one would be a duplicate field)
                if cls == "second-name-in-a-column-declaration":
                    how = "joined"
                if cls == "embedded-exported-struct-dash-tagged":
                    how = "embedded-dash"
                    if any("embedded-dash" in d for d in desc):
                        continue
                ss = structs_of(dec)
                path, fl = ss[rnd.randrange(len(ss))]
                pos = rnd.randint(0, len(fl))
                if how == "joined":
                    cands = [(p_, i_ + 1) for p_, fl_ in ss for i_, x_ in enumerate(fl_) if x_[0] == "leaf"]
                    if not cands:
                        continue
                    path, pos = cands[rnd.randrange(len(cands))]
                dec = replace_at(dec, path, lambda l, pos=pos, how=how, gt=gt: l[:pos] + [("excluded", how, gt)] + l[pos:])
                imports.update(imp)
                if ax and ax not in aux:
                    aux += ax
                desc.append("excluded:%s:%s:depth%d:pos%d" % (how, cls, len(path), pos))
        if kind in ("embed", "both"):
            # embedding inside a nested struct is a catalogued finding (compile error); it is only generated on its own
            # so that the catalogue entry cannot hide a problem with excluded fields (exclusion by construction)
            ss = [(p, fl) for p, fl in structs_of(dec) if len(fl) >= 1 and (kind == "embed" or len(p) == 0)]
            path, fl = ss[rnd.randrange(len(ss))]
            i = rnd.randrange(len(fl))
            j = rnd.randint(i + 1, len(fl))
            dec = replace_at(dec, path, lambda l, i=i, j=j: l[:i] + [("embedded", l[i:j])] + l[j:])
            desc.append("embedded:depth%d:fields%d-%d-of-%d" % (len(path), i, j, len(fl)))
        topdown = rnd.random() < 0.4
        if topdown:
            desc.append("types-declared-top-down")
        multikey = rnd.random() < 0.4
        grouped = rnd.random() < 0.3
        if multikey:
            desc.append("types-declared-with-json-key-before-parquet-key")
        if grouped:
            desc.append("types-declared-in-one-parenthesised-group")
        pairs.append(dict(base=base, dec=dec, desc=desc, imports=tuple(sorted(imports)), aux=aux, topdown=topdown, multikey=multikey, grouped=grouped))
    # embedding chains (an embedded struct that itself embeds a struct), declared bottom-up and top-down
    for i, td in enumerate((False, True, True)):
        b0 = bases[(i * 101 + 7) % len(bases)]
        inner = [("leaf", "r", "N91", "n91", "int32"), ("leaf", "o", "N92", "", "string")]
        mid = [("leaf", "r", "N93", "n93", "int64")]
        base = inner + mid + list(b0)
        dec = [("embedded", [("embedded", list(inner), "Base")] + mid, "Meta")] + list(b0)
        pairs.append(dict(base=base, dec=dec, desc=["embedded:depth0:chain-of-two", "types-declared-top-down" if td else "types-declared-bottom-up"], imports=(), aux="", topdown=td))
    # type reuse: one struct type both embedded in the root and used as the type of a group field (and of a second group)
    k = 0
    for gr in lab.REPS:
        for (ra, rb) in (("r", "o"), ("o", "r"), ("r", "r"), ("p", "r")):
            if tier != "thorough" and k >= 4:
                break
            k += 1
            inner = [("leaf", ra, "N1", "n1", "int32"), ("leaf", rb, "N2", "", "string")]
            base = list(inner) + [("group", gr, list(inner), "N3", "n3"), ("leaf", "r", "N4", "n4", "int64"), ("group", "o", list(inner), "N5", "")]
            dec = [("embedded", list(inner), "Shared"), ("groupref", gr, list(inner), "N3", "n3", "Shared"), ("leaf", "r", "N4", "n4", "int64"),
                   ("groupref", "o", list(inner), "N5", "", "Shared")]
            pairs.append(dict(base=base, dec=dec, desc=["embedded:depth0:type-reused-as-group-%s" % gr], imports=(), aux=""))
    # one struct type embedded as the first field of two structs of the same program (the root and a required nested group), each
    # followed by a field of the same Go name and type but another column name; 3 and 5 columns in the embedded struct
    for ncol in (3, 5):
        inner = [("leaf", "r" if j % 2 == 0 else "o", "N%d" % (j + 1), "n%d" % (j + 1), ("int64", "int32", "string")[j % 3]) for j in range(ncol)]
        child_tail = [("leaf", "r", "N7", "item_n7", "string"), ("leaf", "r", "N8", "n8", "int32")]
        base = list(inner) + [("leaf", "r", "N7", "n7", "string"), ("group", "r", list(inner) + child_tail, "N9", "n9")]
        dec = [("embedded", list(inner), "Audit"), ("leaf", "r", "N7", "n7", "string"),
               ("group", "r", [("embedded", list(inner), "Audit")] + child_tail, "N9", "n9")]
        pairs.append(dict(base=base, dec=dec, desc=["embedded:depth0+1:one-type-embedded-in-root-and-in-a-required-group-%dcols" % ncol], imports=(), aux=""))
    return pairs


def c14_prepare(D, pid, cfg, W, tier, replay):
    seed = int(os.environ.get("VERIF_SEED", "1") or 1)
    W.c14 = []
    items = []
    if replay or True:
        # regression inputs / --replay: pairs stored as sources
        paths = [os.path.abspath(replay)] if replay else sorted(glob.glob(os.path.join(D.VERIF, "replays", pid, "*.json")))
        for k in D.known_entries(pid):
            if k["replay"] and not replay:
                paths.append(os.path.join(D.VERIF, k["replay"]))
        W.replay_pkgs = {}
        for i, p in enumerate(paths):
            try:
                c = json.load(open(p))["case"]
            except Exception:
                continue
            bn, dn = "rb%04d" % i, "rd%04d" % i
            rb = lab.gen_one(W, bn, c["base.go"].replace("package " + c["base_pkg"], "package " + bn, 1), determinism=False)
            rd = lab.gen_one(W, dn, c["decorated.go"].replace("package " + c["dec_pkg"], "package " + dn, 1), determinism=False)
            W.replay_pkgs[p] = (bn, dn, rb, rd, c)
    if not replay:
        pairs = c14_pairs(D, tier, seed)
        for i, pr in enumerate(pairs):
            bn, dn = "b%04d" % i, "d%04d" % i
            bsrc = lab.emit(bn, pr["base"])
            dsrc = lab.emit(dn, pr["dec"], imports=pr["imports"], extra=pr["aux"], topdown=pr.get("topdown", False), multikey=pr.get("multikey", False), grouped=pr.get("grouped", False))
            W.c14.append(dict(i=i, bn=bn, dn=dn, bsrc=bsrc, dsrc=dsrc, desc=pr["desc"], shape=lab.typed_notation(pr["base"]), dshape=lab.notation(pr["dec"])))
    import concurrent.futures as cf
    with cf.ThreadPoolExecutor(max_workers=os.cpu_count() or 4) as ex:
        futs = {}
        for c in W.c14:
            futs[ex.submit(lab.gen_one, W, c["bn"], c["bsrc"], False)] = (c, "b")
            futs[ex.submit(lab.gen_one, W, c["dn"], c["dsrc"], True)] = (c, "d")
        for fut in cf.as_completed(futs):
            c, which = futs[fut]
            c[which + "res"] = fut.result()
    names = []
    for c in W.c14:
        for w in ("b", "d"):
            if c[w + "res"]["ok"]:
                names.append(c[w + "n"])
    for p, (bn, dn, rb, rd, c) in W.replay_pkgs.items():
        names += [n for n, r in ((bn, rb), (dn, rd)) if r["ok"]]
    bad = lab.build_all(W, names)
    if "_other" in bad:
        raise RuntimeError("go build ./lab/... failed outside lab packages:\n" + bad["_other"][:2000])

    def drop(name):
        for fn in ("parquet.go", "adapter.go"):
            try:
                os.remove(os.path.join(W.h, "lab", name, fn))
            except OSError:
                pass
    for c in W.c14:
        for w in ("b", "d"):
            r = c[w + "res"]
            if r["ok"] and c[w + "n"] in bad:
                r["ok"], r["cls"] = False, "compile-error"
                r["log"] = "\n".join([l for l in bad[c[w + "n"]].splitlines() if l.strip()][:3])[:600]
                drop(c[w + "n"])
    for p, (bn, dn, rb, rd, c) in W.replay_pkgs.items():
        for n, r in ((bn, rb), (dn, rd)):
            if r["ok"] and n in bad:
                r["ok"], r["cls"], r["log"] = False, "compile-error", bad[n][:600]
                drop(n)
    pkgs = []
    for c in W.c14:
        if c["bres"]["ok"] and c["dres"]["ok"]:
            pkgs += ["lab/" + c["bn"], "lab/" + c["dn"]]
        else:
            for w in ("b", "d"):
                if c[w + "res"]["ok"]:
                    drop(c[w + "n"])
    for p, (bn, dn, rb, rd, c) in W.replay_pkgs.items():
        if rb["ok"] and rd["ok"]:
            pkgs += ["lab/" + bn, "lab/" + dn]
        else:
            for n, r in ((bn, rb), (dn, rd)):
                if r["ok"]:
                    drop(n)
    return pkgs


def c14_key(c):
    """violation key for a decorated program that does not generate/compile: class + the transformation kinds involved."""
    dd = [d for d in c["desc"] if not d.startswith("types-declared")]
    if dd and all(d.startswith("embedded:") and not d.startswith("embedded:depth0") for d in dd):
        return "C14/%s/embedded-in-nested-struct" % c["dres"]["cls"]
    lines = [l for l in (c["dres"].get("log") or "").splitlines() if l.strip() and not l.startswith("#")]
    if c["dres"]["cls"] == "compile-error" and lines and all("too few values in struct literal" in l for l in lines) and any(d.startswith("excluded") for d in dd):
        # known generator defect (finding 15, the C14 face of the C05 catalogue's "too few values" class): some structs are
        # built with positional composite literals, so a field added to such a struct - even an excluded one - breaks compilation
        return "C14/compile-error/excluded-field-in-struct-built-with-positional-literal"
    kinds = sorted(set(":".join(d.split(":")[:3]) if d.startswith("excluded") else "embedded" for d in c["desc"] if not d.startswith("types-declared")))
    return "C14/%s/%s" % (c["dres"]["cls"], "+".join(kinds))


def c14_post(D, pid, cfg, W, tier):
    import props as P
    violations, hits, counts, cat = [], {}, {}, []
    for c in W.c14:
        if not c["bres"]["ok"]:
            counts["base-unhealthy(discarded)"] = counts.get("base-unhealthy(discarded)", 0) + 1
            continue
        if c["dres"]["ok"]:
            counts["built"] = counts.get("built", 0) + 1
            continue
        key = c14_key(c)
        counts[c["dres"]["cls"]] = counts.get(c["dres"]["cls"], 0) + 1
        cat.append("known: property=C14 key=%s :: decorated struct (%s) does not %s: %s" % (key, ", ".join(c["desc"]), "generate" if c["dres"]["cls"] == "gen-error" else "compile",
                                                                                      (c["dres"]["log"].strip().splitlines() or [""])[0][:160].replace(" :: ", " : ")))
        if is_known(D, pid, key):
            hits[key] = hits.get(key, 0) + 1
            continue
        msg = json.dumps({"property": pid, "key": key, "msg": c["dres"]["log"], "case": {"transform": c["desc"], "base_pkg": c["bn"], "dec_pkg": c["dn"], "base.go": c["bsrc"], "decorated.go": c["dsrc"]}}, indent=1)
        violations.append(P.save_failure(pid, msg))
    cov = {"programs": 2 * len(W.c14), "program_build_classes": counts, "known_finding_hits_build": hits, "catalogue_lines": sorted(set(cat))}
    # hand the pair descriptions to the evidence
    cov["transform_samples"] = [{"base": c["shape"], "decorated": c["dshape"], "transform": c["desc"]} for c in W.c14[:6]]
    return violations, cov, []


def c14_replay_env(W, path):
    bn, dn, rb, rd, c = W.replay_pkgs.get(path, ("rb0000", "rd0000", {"ok": False, "cls": "gen-error"}, {"ok": False, "cls": "gen-error"}, {}))
    e = {"VERIF_REPLAY_PKG": bn, "VERIF_REPLAY_PKG2": dn}
    if not rd["ok"] and rb["ok"]:
        e["VERIF_REPLAY_BUILDKEY"] = c14_key(dict(desc=c.get("transform", []), dres=rd))
    return e


_register_c05 = register


def register(PROPS):
    _register_c05(PROPS)
    PROPS["C14"] = dict(
        level="exploration",
        technique="metamorphic testing over programs: base struct vs decorated struct (excluded fields inserted / run of fields replaced by an embedded struct) must produce byte-identical files",
        level_text="Exploration over programs: healthy base shapes of the C05 grammar are decorated with excluded fields of many Go types (unexported or dash-tagged, at any position and nesting level) "
                   "and/or have a contiguous run of fields replaced by a by-value embedded struct; both programs are generated with the working tree's parquetgen and compiled; for the structural value "
                   "space of the base the two writers must emit identical bytes and the decorated reader must return the values with zero excluded fields.",
        level_note="Trusted: the Go compiler, the reflection bridge. Base shapes listed as failing under C05 are not used. Program choice is seeded by VERIF_SEED (python random), values are enumerated.",
        fixtures=[],
        gen_anchored=True,
        prepare=c14_prepare, post=c14_post, replay_env=c14_replay_env,
        stages=[dict(test="TestC14", kind="enum", quick=1, thorough=1, timeout_thorough=5400)],
        replay="TestReplayC14",
        rule="program pairs (56 quick / 2012 thorough; every other embedded field, by position, carries a tag of another package (json inline) and is still an embedded field): the first 22 pairs insert one excluded field of each Go type class (incl. an embedded struct of unexported type); the last 4/12 pairs reuse one struct type both embedded in the root and as the type of two group fields; (8 primitives, other basic types, pointer, slice, array, map, chan, func with "
             "unnamed/named parameters and results, anonymous structs with exported fields, interfaces, named struct / pointer / slice of it, qualified types) into a healthy base; the rest draw 1..4 excluded "
             "fields (how in {unexported, dash-tagged} quick; + {_x, non-ASCII lower-case} thorough) at random structs/positions and/or replace a random contiguous run of fields of a random struct by an "
             "embedded struct. Oracle: decorated program generates deterministically and compiles; for up to 60 structurally distinct records x 3 workloads the bytes written are identical to the base's; "
             "reading the decorated file into fresh structs gives the written values and zero excluded fields (dash-tagged exported fields were filled with junk before Add). evaluations = records judged; "
             "non-trivial = pair whose decoration is inside a nested/repeated group, of composite type, or an embedded run not at the start; distinct by pair.",
    )


# ---------------------------------------------------------------------------
# C15: a struct regenerated from a file reads that file back faithfully (two-stage pipeline)

C15_PRIMS = ["int32", "string", "bool", "int64", "float64", "float32"]


def c15_shapes(tier, seed):
    """non-repeated shapes: leaves {r,o} of the six signed/float/bool/string types, groups {r,o} to depth 3."""
    rnd = random.Random(7919 * seed + (3 if tier == "thorough" else 1))
    L = lambda r: ("leaf", r)
    G = lambda r, *f: ("group", r, list(f))
    fixed = [
        [L("r"), L("o")],
        [L("r"), G("r", L("r"), L("o")), L("o")],
        [G("o", L("r"), L("o")), L("r")],
        [L("r"), G("r", L("r"), G("r", L("r"), L("o")), L("o")), L("r")],
        [G("o", G("o", L("o"), L("r")), L("r")), L("o")],
        [G("r", G("o", G("r", L("r")))), L("r")],
        [L("o"), G("o", L("o"), G("r", L("o"), G("o", L("r"), L("o")))), G("r", L("r"))],
    ]

    def rand_fields(depth, maxf):
        n = rnd.randint(1, maxf)
        out = []
        for _ in range(n):
            if depth < 3 and rnd.random() < 0.4:
                out.append(G(rnd.choice("ro"), *rand_fields(depth + 1, 3)))
            else:
                out.append(L(rnd.choice("ro")))
        return out
    # a leaf and a group that share a name under different parents (group names are unique among groups, as the property requires)
    fixed.append([("leaf", "r", "Id", "id", "int64"), ("leaf", "r", "Address", "address", "string"),
                  ("group", "r", [("leaf", "o", "Email", "email", "string"),
                                  ("group", "o", [("leaf", "r", "Street", "street", "string"), ("leaf", "o", "Floor", "floor", "int32")], "Address", "address")], "Contact", "contact"),
                  ("leaf", "o", "Balance", "balance", "float64")])
    n = 2000 if tier == "thorough" else 32
    shapes = list(fixed)
    while len(shapes) < n:
        shapes.append(rand_fields(1, 4))
    return shapes[:n]


def c15_prepare(D, pid, cfg, W, tier, replay):
    """stage A: source programs; they write files into W.dir/c15 when TestC15Write runs (driven from c15_mid)."""
    seed = int(os.environ.get("VERIF_SEED", "1") or 1)
    W.replay_pkgs = {}
    shapes = []
    if replay:
        c = json.load(open(os.path.abspath(replay)))["case"]
        shapes = [("s0000", c["fields"])]
    else:
        for i, p in enumerate(sorted(glob.glob(os.path.join(D.VERIF, "replays", pid, "*.json")))):
            try:
                c = json.load(open(p))["case"]
                shapes.append(("r%04d" % i, c["fields"]))
            except Exception:
                pass
        for i, f in enumerate(c15_shapes(tier, seed)):
            shapes.append(("s%04d" % i, f))
    W.c15 = []
    items = []
    for k, (name, f) in enumerate(shapes):
        f = tuplify(f)
        f = lab.annotate(f, prims=C15_PRIMS, tag_all=True)
        if k % 3 == 1:
            f = underscore_tags(f)  # column names that are identifiers with an underscore (n3 -> n_3)
        elif k % 7 == 2:
            f = underscore_tags(f, "\u00e9", "\u00fc")  # column / group names starting with a non-ASCII cased letter (n3 -> \u00e93, group n2 -> \u00fc2)
        items.append((name, f, dict(tag_all=True, prims=C15_PRIMS)))
    res = lab.build_lab(W, items, determinism=False)
    for (name, f, kw), r in zip(items, res):
        W.c15.append(dict(name=name, fields=f, res=r, typed=lab.typed_notation(f, prims=C15_PRIMS), cols=lab.column_paths(f, prims=C15_PRIMS, tag_all=True)))
    return ["lab/" + c["name"] for c in W.c15 if c["res"]["ok"]]


def underscore_tags(fields, leaf="n_", group="g_"):
    out = []
    for f in fields:
        if f[0] == "leaf":
            out.append(("leaf", f[1], f[2], f[3].replace("n", leaf, 1) if f[3] else f[3], f[4]))
        elif f[0] == "group":
            out.append(("group", f[1], underscore_tags(f[2], leaf, group), f[3], f[4].replace("n", group, 1) if f[4] else f[4]))
        else:
            out.append(f)
    return out


def tuplify(f):
    out = []
    for x in f:
        if x[0] == "leaf":
            out.append(tuple(x))
        elif x[0] == "group":
            out.append(("group", x[1], tuplify(x[2])) + tuple(x[3:]))
        else:
            out.append(tuple(x))
    return out


def c15_mid(D, pid, cfg, W, tier, env):
    """between stage A (write files) and stage B (read them with regenerated code): run parquetgen -parquet per file, build the regenerated packages, rebuild the test binary."""
    import props as P
    outdir = os.path.join(W.dir, "c15")
    pg = os.path.join(W.bin, "parquetgen")
    regen = []
    prev_file = None
    W.c15_regen_fail = []
    for c in W.c15:
        if not c["res"]["ok"]:
            continue
        f = os.path.join(outdir, c["name"] + ".parquet")
        if not os.path.exists(f):
            continue
        name = "g" + c["name"][1:] if c["name"][0] == "s" else "h" + c["name"][1:]
        d = os.path.join(W.h, "lab", name)
        os.makedirs(d, exist_ok=True)
        # the output directory is not fresh: an earlier run for a different (here: the previous) file left its output there
        if prev_file is not None:
            try:
                subprocess.run([pg, "-parquet", prev_file, "-type", "Rec", "-package", name, "-struct-output", "generated_struct.go", "-output", "parquet.go"], cwd=d,
                               stdout=subprocess.PIPE, stderr=subprocess.STDOUT, text=True, timeout=120, errors="replace")
            except subprocess.TimeoutExpired:
                pass
        prev_file = f
        try:
            p = subprocess.run([pg, "-parquet", f, "-type", "Rec", "-package", name, "-struct-output", "generated_struct.go", "-output", "parquet.go"], cwd=d,
                               stdout=subprocess.PIPE, stderr=subprocess.STDOUT, text=True, timeout=120, errors="replace")
            rc, out = p.returncode, p.stdout
        except subprocess.TimeoutExpired:
            rc, out = -9, "timeout"
        c["regen"] = name
        if rc != 0 or not os.path.exists(os.path.join(d, "parquet.go")):
            c["regen_cls"] = "regen-error"
            c["regen_log"] = "\n".join([l for l in out.splitlines() if l.strip()][:6])[:800]
            shutil_rm(d)
            continue
        tmpl = open(os.path.join(W.h, "fixtures", "adapter.go.tmpl")).read()
        open(os.path.join(d, "adapter.go"), "w").write(tmpl.replace("PKGNAME", name).replace("FIXNAME", name))
        c["regen_cls"] = ""
        regen.append(c)
    bad = lab.build_all(W, [c["regen"] for c in regen])
    if "_other" in bad:
        raise RuntimeError("go build ./lab/... failed outside lab packages:\n" + bad["_other"][:2000])
    pkgs = ["lab/" + c["name"] for c in W.c15 if c["res"]["ok"]]
    for c in regen:
        if c["regen"] in bad:
            c["regen_cls"] = "regen-compile-error"
            c["regen_log"] = "\n".join([l for l in bad[c["regen"]].splitlines() if l.strip()][:4])[:800]
            c["regen_src"] = open(os.path.join(W.h, "lab", c["regen"], "generated_struct.go")).read()
            shutil_rm(os.path.join(W.h, "lab", c["regen"]))
        else:
            pkgs.append("lab/" + c["regen"])
    W.write_imports(pkgs)
    ok, log = W.build_tests(name="props2.test")
    if not ok:
        raise D.Infra("stage B test binary does not build:\n" + log[-3000:])


def shutil_rm(d):
    import shutil
    shutil.rmtree(d, ignore_errors=True)


def c15_key(c):
    depth = 0
    d = 0
    for ch in c["typed"]:
        if ch == "{":
            d += 1
            depth = max(depth, d)
        elif ch == "}":
            d -= 1
    return "C15/%s/group-depth=%d" % (c["regen_cls"], depth - 1)


def c15_post(D, pid, cfg, W, tier):
    import props as P
    violations, hits, counts, cat = [], {}, {}, []
    for c in W.c15:
        if not c["res"]["ok"]:
            counts["source-unhealthy(discarded)"] = counts.get("source-unhealthy(discarded)", 0) + 1
            continue
        cls = c.get("regen_cls", "no-file")
        counts[cls or "regenerated"] = counts.get(cls or "regenerated", 0) + 1
        if not cls:
            continue
        key = c15_key(c) if cls != "no-file" else "C15/no-file"
        if is_known(D, pid, key):
            hits[key] = hits.get(key, 0) + 1
            continue
        msg = json.dumps({"property": pid, "key": key, "msg": c.get("regen_log", ""), "case": {"shape": c["typed"], "fields": c["fields"], "regenerated_struct": c.get("regen_src", "")}}, indent=1)
        violations.append(P.save_failure(pid, msg))
    cov = {"programs": len(W.c15), "program_build_classes": counts, "known_finding_hits_build": hits}
    return violations, cov, []


def c15_replay_env(W, path):
    return {"VERIF_REPLAY_PKG": "s0000"}


_register_c14 = register


def register(PROPS):
    _register_c14(PROPS)
    PROPS["C15"] = dict(
        level="exploration",
        technique="round trip over programs: struct -> file -> parquetgen -parquet -> regenerated struct and reader -> same file; structural comparison by reflection plus value equality",
        level_text="Exploration over programs: non-repeated struct shapes (fixed list + seeded random shapes to depth 3) are generated, compiled and used to write files in all three codecs; "
                   "parquetgen -parquet regenerates a struct and reader from each file; the regenerated type is compared structurally with the source (column paths, nesting, optionality, "
                   "physical types) and must read the file back with exactly the written values.",
        level_note="Trusted: the Go compiler, the reflection bridge. Domain as stated by the property: no repeated fields, signed/float/bool/string leaves, unique group names, tags that are identifiers.",
        fixtures=[],
        gen_anchored=True,
        prepare=c15_prepare, post=c15_post, replay_env=c15_replay_env, mid=c15_mid,
        stages=[dict(test="TestC15Write", kind="enum", quick=1, thorough=1, shards=1), dict(test="TestC15Read", kind="enum", quick=1, thorough=1, bin="props2.test", premid=True, timeout_thorough=3600)],
        replay="TestReplayC15",
        rule="programs: 7 fixed shapes + seeded random shapes (32 quick / 2000 thorough): 1..4 fields per struct, each a leaf {required, optional} of int32/string/bool/int64/float64/float32 or a group "
             "{required, optional} nested to depth 3; all columns tagged with unique identifiers (every third program uses names with an underscore, e.g. g_3.n_4; every seventh uses column and group names that start with a non-ASCII cased letter). Per program: up to 40 structurally distinct records written with the source type (codec rotates), "
             "parquetgen -parquet on the file - into a directory that already holds the output of a run for the previous program's file - compile, then: notation and column paths of the regenerated Rec (by reflection) == source; regenerated reader returns the written values. "
             "evaluations = records compared; non-trivial = shape with a group at depth >= 2 or an optional group; distinct by program.",
    )

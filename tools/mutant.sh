#!/bin/bash
# usage: tools/mutant.sh <patch.diff> <ID>...   : apply a patch to /repo, check it still builds and passes the suite, run the quick checks, undo.
set -u
patch=$(realpath "$1"); shift
cd /repo || exit 2
if [ -n "$(git status --porcelain)" ]; then echo "repo not clean"; exit 2; fi
git apply "$patch" || { echo "patch does not apply"; exit 2; }
trap 'git -C /repo checkout -- . ; git -C /repo clean -fdq' EXIT
if ! go build ./... 2>/tmp/mut_build.log; then echo "MUTANT DOES NOT BUILD"; cat /tmp/mut_build.log | head; exit 3; fi
if ! go test -vet=off -count=1 ./... >/tmp/mut_suite.log 2>&1; then echo "MUTANT FAILS THE EXISTING SUITE"; grep -v "^ok\|no test files" /tmp/mut_suite.log | head -20; [ -z "${FORCE:-}" ] && exit 4; fi
cd /verif
for id in "$@"; do
  out=$(./check $id 2>&1); rc=$?
  echo "== $id rc=$rc $(echo "$out" | grep -c VIOLATION) violation line(s): $(echo "$out" | grep VIOLATION | head -2 | tr '\n' ' ')"
  echo "$out" | grep "violated\|driver\] inconcl" | head -3 | cut -c1-300
done

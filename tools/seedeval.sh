#!/bin/bash
# usage: tools/seedeval.sh <ID> <N> [check ids...]  - confirm a sub-agent's seeded change in its worktree, then run our checks against it
id=$1; n=$2; shift 2
wt=${SEEDROOT:-/tmp/seed}/$id; sd=$wt/SEED$n
[ -f $sd/patch.diff ] || { echo "no patch in $sd"; exit 2; }
export GOFLAGS= GOPROXY=off GOSUMDB=off GOTOOLCHAIN=local
cd $wt
git checkout -q -- . 2>/dev/null
cmd=$(python3 -c "import json;print(json.load(open('$sd/meta.json')).get('demo_cmd',''))")
echo "demo_cmd: $cmd"
pk=$(go list ./... 2>/dev/null | grep -v "/SEED\|seeddemo")
( eval "$cmd" ) >/tmp/seed_clean.log 2>&1; c1=$?
git apply $sd/patch.diff || { echo "PATCH DOES NOT APPLY"; exit 2; }
go build ./... >/tmp/seed_build.log 2>&1; b=$?
go test -vet=off -count=1 $pk >/tmp/seed_suite.log 2>&1; s=$?
( eval "$cmd" ) >/tmp/seed_patched.log 2>&1; c2=$?
git checkout -q -- .
echo "CONFIRM $id/$n: demo on clean tree rc=$c1 (want 0); patched: build rc=$b (want 0), suite rc=$s (want 0), demo rc=$c2 (want !=0)"
if [ $c1 -ne 0 ] || [ $b -ne 0 ] || [ $s -ne 0 ] || [ $c2 -eq 0 ]; then echo "NOT CONFIRMED"; tail -5 /tmp/seed_clean.log /tmp/seed_suite.log; exit 3; fi
cd /verif
ids="$@"; [ -z "$ids" ] && ids=$id
tools/mutant.sh $sd/patch.diff $ids

#!/bin/bash
# usage: tools/seedeval5.sh <ID> <N> [check ids...]  - like seedeval.sh, but the checks run against the sub-agent's own worktree
# (VERIF_REPO) with evidence/failures under $VOUT, so several seeds can be evaluated at once and /repo is never touched.
id=$1; n=$2; shift 2
wt=${SEEDROOT:-/tmp/seed5}/$id; sd=$wt/SEED$n; L=${VOUT:-/tmp/vout}/$id-$n; mkdir -p $L
[ -f $sd/patch.diff ] || { echo "no patch in $sd"; exit 2; }
export GOFLAGS= GOPROXY=off GOSUMDB=off GOTOOLCHAIN=local
cd $wt
git checkout -q -- . 2>/dev/null
cmd=$(python3 -c "import json;print(json.load(open('$sd/meta.json')).get('demo_cmd',''))")
pk=$(go list ./... 2>/dev/null | grep -v "/SEED\|seeddemo")
( eval "$cmd" ) >$L/clean.log 2>&1; c1=$?
git apply $sd/patch.diff || { echo "PATCH DOES NOT APPLY $id/$n"; exit 2; }
go build ./... >$L/build.log 2>&1; b=$?
go test -vet=off -count=1 $pk >$L/suite.log 2>&1; s=$?
( eval "$cmd" ) >$L/patched.log 2>&1; c2=$?
echo "CONFIRM $id/$n: demo clean rc=$c1 (want 0); patched: build rc=$b suite rc=$s (want 0,0), demo rc=$c2 (want !=0)"
if [ $c1 -ne 0 ] || [ $b -ne 0 ] || [ $s -ne 0 ] || [ $c2 -eq 0 ]; then echo "NOT CONFIRMED $id/$n"; git checkout -q -- .; exit 3; fi
ids="$@"; [ -z "$ids" ] && ids=$id
cd /verif
for c in $ids; do
  out=$(VERIF_REPO=$wt VERIF_OUT=$L GOFLAGS=-mod=mod ./check $c 2>&1); rc=$?
  echo "== seed $id/$n check $c rc=$rc $(echo "$out" | grep -c VIOLATION) violation line(s): $(echo "$out" | grep VIOLATION | head -2 | tr '\n' ' ')"
  echo "$out" | grep "violated\|driver\] inconcl" | head -3 | cut -c1-300
done
git -C $wt checkout -q -- .

#!/usr/bin/python3
"""tools/gendiff.py <clean-repo> <other-repo> [quick|thorough]

Sensitivity helper for generator mutants: builds parquetgen from both trees, generates code for every C05 lab shape
of the tier and reports the shapes whose generated code differs.  No difference over the whole lab = the change is
equivalent as far as C05/C03 can ever see; a difference on a healthy shape that C05 does not report would be a miss.
"""
import sys, os, subprocess, tempfile, shutil, hashlib
from concurrent.futures import ThreadPoolExecutor

VERIF = os.path.dirname(os.path.dirname(os.path.abspath(__file__)))
sys.path.insert(0, os.path.join(VERIF, "driver"))
import lab, labprops  # noqa: E402

ENV = dict(os.environ, GOFLAGS="-trimpath", GOPROXY="off", GOSUMDB="off", GOTOOLCHAIN="local")


def build(repo, out):
    p = subprocess.run(["go", "build", "-o", out, "./cmd/parquetgen"], cwd=repo, env=ENV, stdout=subprocess.PIPE, stderr=subprocess.STDOUT, text=True)
    assert p.returncode == 0, p.stdout


def main():
    clean, other = sys.argv[1], sys.argv[2]
    tier = sys.argv[3] if len(sys.argv) > 3 else "thorough"
    tmp = tempfile.mkdtemp(prefix="gendiff-")
    try:
        build(clean, os.path.join(tmp, "pgA"))
        build(other, os.path.join(tmp, "pgB"))
        shapes = labprops.c05_shapes(tier)

        def one(i):
            fields = lab.annotate(shapes[i])
            src = lab.emit("p", fields)
            d = os.path.join(tmp, "s%d" % i)
            os.makedirs(d)
            open(os.path.join(d, "types.go"), "w").write(src)
            outs = []
            for pg in ("pgA", "pgB"):
                p = subprocess.run([os.path.join(tmp, pg), "-input", "types.go", "-type", "Rec", "-package", "p", "-output", pg + ".go"], cwd=d,
                                   stdout=subprocess.PIPE, stderr=subprocess.STDOUT, text=True, errors="replace", timeout=120)
                fn = os.path.join(d, pg + ".go")
                outs.append(open(fn).read() if os.path.exists(fn) else "ERR")  # both failing to generate = same class for C05
            shutil.rmtree(d)
            return i, outs[0] != outs[1]

        with ThreadPoolExecutor(16) as ex:
            res = list(ex.map(one, range(len(shapes))))
        diff = [i for i, d in res if d]
        print("%d shapes, generated code differs for %d" % (len(shapes), len(diff)))
        for i in diff[:40]:
            print("  ", lab.typed_notation(shapes[i]))
    finally:
        shutil.rmtree(tmp, ignore_errors=True)


if __name__ == "__main__":
    main()

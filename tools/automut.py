#!/usr/bin/python3
"""Automatic mutation campaign (a sensitivity measurement for the checks, not a check itself).

  tools/automut.py list                       # token-level mutants of the library and generator -> $AM/muts.jsonl
  tools/automut.py filter [workers]           # drop mutants that do not build or that the existing suite kills
  tools/automut.py eval [workers] [sample] [file-prefix]   # run the quick checks (VERIF_SEED=1) on the survivors, first catch wins
  tools/automut.py report

State lives in $AM (default /tmp/automut); worktrees /tmp/mw<i> are created from /repo's HEAD and removed at the end
of each phase.  Nothing is written under /verif (VERIF_OUT points the driver's evidence/failures at $AM).
"""
import sys, os, json, subprocess, random, threading, time, shutil

AM = os.environ.get("AM", "/tmp/automut")
VERIF = os.path.dirname(os.path.dirname(os.path.abspath(__file__)))
FILES = """parquet.go fields.go internal/rle/rle.go internal/bitpack/bitpack.go
cmd/parquetgen/gen/funcs.go cmd/parquetgen/gen/gen.go cmd/parquetgen/gen/template.go cmd/parquetgen/gen/template_bool.go
cmd/parquetgen/gen/template_bool_optional.go cmd/parquetgen/gen/template_optional.go cmd/parquetgen/gen/template_required.go
cmd/parquetgen/gen/template_string.go cmd/parquetgen/gen/template_string_optional.go
cmd/parquetgen/dremel/dremel.go cmd/parquetgen/dremel/read.go cmd/parquetgen/dremel/read_repeated.go
cmd/parquetgen/dremel/write_optional.go cmd/parquetgen/dremel/write_repeated.go
cmd/parquetgen/fields/fields.go cmd/parquetgen/fields/repetition.go cmd/parquetgen/fields/templates.go
cmd/parquetgen/parse/parse.go cmd/parquetgen/structs/structs.go cmd/parquetgen/cases/cases.go""".split()

CHECKS = [
    ("parquet.go", "C02 C06 C04 C16 C01 C11 C10 C09 C18 C13 C08"),
    ("fields.go", "C01 C04 C03 C02 C12 C18 C08 C10 C11 C09 C13"),
    ("internal/rle/", "C07 C01 C04 C03"),
    ("internal/bitpack/", "C17 C07 C01"),
    ("cmd/parquetgen/gen/", "C01 C05 C02 C06 C12 C03 C09 C10 C13 C04 C11 C14 C08"),
    ("cmd/parquetgen/dremel/", "C05 C03 C01"),
    ("cmd/parquetgen/fields/", "C05 C03 C01 C14"),
    ("cmd/parquetgen/parse/", "C05 C14 C15"),
    ("cmd/parquetgen/structs/", "C15 C05"),
    ("cmd/parquetgen/cases/", "C05 C15 C14"),
]
ENV = dict(os.environ, GOFLAGS="-trimpath", GOPROXY="off", GOSUMDB="off", GOTOOLCHAIN="local")


def sh(cmd, cwd=None, env=None, timeout=None):
    try:
        p = subprocess.run(cmd, cwd=cwd, env=env or ENV, stdout=subprocess.PIPE, stderr=subprocess.STDOUT, text=True, timeout=timeout)
        return p.returncode, p.stdout
    except subprocess.TimeoutExpired as ex:
        return -9, (ex.stdout.decode("utf-8", "replace") if isinstance(ex.stdout, bytes) else (ex.stdout or "")) + "\nTIMEOUT"


def worktree(i):
    d = "/tmp/mw%d" % i
    sh(["git", "-C", "/repo", "worktree", "remove", "--force", d])
    shutil.rmtree(d, ignore_errors=True)
    rc, out = sh(["git", "-C", "/repo", "worktree", "add", "--detach", d, "HEAD"])
    assert rc == 0, out
    return d


def drop_worktree(i):
    d = "/tmp/mw%d" % i
    sh(["git", "-C", "/repo", "worktree", "remove", "--force", d])
    shutil.rmtree(d, ignore_errors=True)
    sh(["git", "-C", "/repo", "worktree", "prune"])


def load(name):
    p = os.path.join(AM, name)
    return [json.loads(l) for l in open(p)] if os.path.exists(p) else []


def mid(m):
    return "%s@%d:%s" % (m["file"], m["off"], m["new"])


def apply(wt, m):
    p = os.path.join(wt, m["file"])
    b = open(p, "rb").read()
    nb = b[:m["off"]] + m["new"].encode() + b[m["off"] + m["len"]:]
    open(p, "wb").write(nb)
    return b


def cmd_list():
    os.makedirs(AM, exist_ok=True)
    rc, out = sh(["go", "build", "-o", os.path.join(AM, "gomut"), "."], cwd=os.path.join(VERIF, "tools", "gomut"), env=dict(ENV, GOFLAGS="-mod=mod"))
    assert rc == 0, out
    rc, out = sh([os.path.join(AM, "gomut")] + FILES, cwd="/repo")
    assert rc == 0, out
    open(os.path.join(AM, "muts.jsonl"), "w").write(out)
    print(len(out.splitlines()), "mutants")


def pool(items, nworkers, fn, resfile):
    lock = threading.Lock()
    it = iter(items)
    done = [0]

    def work(i):
        wt = worktree(i)
        try:
            while True:
                with lock:
                    m = next(it, None)
                if m is None:
                    return
                r = fn(i, wt, m)
                with lock:
                    open(os.path.join(AM, resfile), "a").write(json.dumps(r) + "\n")
                    done[0] += 1
                    if done[0] % 25 == 0:
                        print("[%s] %d/%d" % (time.strftime("%H:%M:%S"), done[0], len(items)), flush=True)
        finally:
            drop_worktree(i)

    ts = [threading.Thread(target=work, args=(i,)) for i in range(nworkers)]
    [t.start() for t in ts]
    [t.join() for t in ts]


def cmd_filter(nworkers):
    muts = load("muts.jsonl")
    have = {r["id"] for r in load("filter.jsonl")}
    todo = [m for m in muts if mid(m) not in have]
    print("filtering", len(todo), "mutants")

    def fn(i, wt, m):
        orig = apply(wt, m)
        try:
            rc, out = sh(["go", "build", "./..."], cwd=wt, timeout=300)
            if rc != 0:
                return {"id": mid(m), "m": m, "status": "nobuild"}
            rc, out = sh(["go", "test", "-vet=off", "-count=1", "-timeout", "120s", "./..."], cwd=wt, timeout=400)
            return {"id": mid(m), "m": m, "status": "survived" if rc == 0 else "killed"}
        finally:
            open(os.path.join(wt, m["file"]), "wb").write(orig)

    pool(todo, nworkers, fn, "filter.jsonl")


SLOW = {"C09", "C10", "C11", "C13", "C08"}  # fault-injection and scheduling checks: run them where they are relevant
FAULTY = {"error check disabled"}


def checks_for(m):
    fn = m["file"]
    for pre, ids in CHECKS:
        if fn.startswith(pre):
            ids = ids.split()
            if m["desc"] in FAULTY:
                return [i for i in ids if i in SLOW] + [i for i in ids if i not in SLOW]
            if fn.startswith("cmd/parquetgen/gen/") or os.environ.get("AM_FAST"):
                return [i for i in ids if i not in SLOW]
            return ids
    return []


def cmd_eval(nworkers, sample, prefix=""):
    surv = [r["m"] for r in load("filter.jsonl") if r["status"] == "survived" and r["m"]["file"].startswith(prefix)]
    have = {r["id"] for r in load("eval.jsonl")}
    rnd = random.Random(4)
    byfile = {}
    for m in surv:
        byfile.setdefault(m["file"], []).append(m)
    todo = []
    for f, ms in sorted(byfile.items()):
        rnd.shuffle(ms)
        todo += ms[:sample]
    todo = [m for m in todo if mid(m) not in have]
    rnd.shuffle(todo)
    print("evaluating", len(todo), "of", len(surv), "survivors")

    def fn(i, wt, m):
        orig = apply(wt, m)
        res = {"id": mid(m), "m": m, "runs": []}
        try:
            env = dict(os.environ, VERIF_REPO=wt, VERIF_OUT=os.path.join(AM, "out%d" % i), VERIF_SEED="1", VERIF_TIER="quick")
            for cid in checks_for(m):
                t0 = time.time()
                rc, out = sh([os.path.join(VERIF, "check"), cid], cwd=VERIF, env=env, timeout=1500)
                res["runs"].append([cid, rc, round(time.time() - t0)])
                if rc == 1 and "VIOLATION" in out:
                    res["caught"] = cid
                    v = [l for l in out.splitlines() if "violated" in l or l.startswith("VIOLATION")]
                    res["what"] = v[0][:300] if v else ""
                    break
                if rc != 0:
                    res.setdefault("inconclusive", []).append(cid)
            return res
        finally:
            open(os.path.join(wt, m["file"]), "wb").write(orig)
            shutil.rmtree(os.path.join(AM, "out%d" % i), ignore_errors=True)

    pool(todo, nworkers, fn, "eval.jsonl")


def cmd_gendiff():
    """generator mutants (cmd/parquetgen/{fields,dremel}): does the generated code of any lab shape change at all?"""
    surv = [r["m"] for r in load("filter.jsonl") if r["status"] == "survived" and
            (r["m"]["file"].startswith("cmd/parquetgen/fields/") or r["m"]["file"].startswith("cmd/parquetgen/dremel/"))]
    have = {r["id"] for r in load("gendiff.jsonl")}
    wt = worktree(9)
    try:
        for m in surv:
            if mid(m) in have:
                continue
            orig = apply(wt, m)
            rc, out = sh([os.path.join(VERIF, "tools", "gendiff.py"), os.environ.get("CLEAN", "/repo"), wt, "thorough"], timeout=1200)
            open(os.path.join(wt, m["file"]), "wb").write(orig)
            n = -1
            for l in out.splitlines():
                if "generated code differs for" in l:
                    n = int(l.split()[-1])
            open(os.path.join(AM, "gendiff.jsonl"), "a").write(json.dumps({"id": mid(m), "m": m, "differs": n, "out": out[-1500:]}) + "\n")
            print(m["file"], m["line"], m["desc"], "->", n, flush=True)
    finally:
        drop_worktree(9)


def cmd_report():
    f = load("filter.jsonl")
    e = load("eval.jsonl")
    from collections import Counter
    print("filter:", dict(Counter(r["status"] for r in f)))
    c = Counter()
    for r in e:
        c["caught" if r.get("caught") else ("inconclusive" if r.get("inconclusive") else "not caught")] += 1
    print("eval:", dict(c))
    print("caught by:", dict(Counter(r["caught"] for r in e if r.get("caught"))))
    for r in e:
        if not r.get("caught"):
            m = r["m"]
            print("NOT CAUGHT%s %s:%d  %s   runs=%s" % (" (inconclusive %s)" % r["inconclusive"] if r.get("inconclusive") else "", m["file"], m["line"], m["desc"], r["runs"]))


if __name__ == "__main__":
    a = sys.argv[1:]
    if not a:
        print(__doc__)
    elif a[0] == "list":
        cmd_list()
    elif a[0] == "filter":
        cmd_filter(int(a[1]) if len(a) > 1 else 8)
    elif a[0] == "eval":
        cmd_eval(int(a[1]) if len(a) > 1 else 3, int(a[2]) if len(a) > 2 else 12, a[3] if len(a) > 3 else "")
    elif a[0] == "gendiff":
        cmd_gendiff()
    elif a[0] == "report":
        cmd_report()

#!/usr/bin/python3
"""Builds patch files for hand-written sensitivity mutants in a scratch worktree (/tmp/mutwt)."""
import subprocess, os, sys
WT = "/tmp/mutwt"
OUT = "/tmp/mut"
os.makedirs(OUT, exist_ok=True)
M = [
 # name, file, old, new, properties expected to catch
 ("add_overflow", "cmd/parquetgen/gen/template.go", "if p.len == p.max {", "if p.len > p.max {", "C01 C02 C06"),
 ("scan_slice1", "cmd/parquetgen/gen/template_optional.go", "f.vals = f.vals[v:]", "f.vals = f.vals[min1(v):]", None),
 ("getbools_sizes", "parquet.go", "	for _, nVals := range pageSizes {\n", "	pageSizes = []int{n}\n	for _, nVals := range pageSizes {\n", "C01 C04"),
 ("pos_not_advanced", "parquet.go", "			pos += ch.MetaData.TotalCompressedSize\n", "			if len(rg.Columns) > 1 {\n				pos += ch.MetaData.TotalCompressedSize\n			}\n", None),
 ("hdr_len_left_out", "parquet.go", "err := rg.updateColumnChunk(pth, dataLen+headerLen, compressedLen+headerLen, count, m.schema, comp)", "err := rg.updateColumnChunk(pth, dataLen+headerLen, compressedLen, count, m.schema, comp)", "C02"),
 ("numrows_docs", "parquet.go", "		fmd.NumRows += rg.NumRows\n", "		fmd.NumRows = m.docs\n", "C06 C02"),
 ("rle_63", "internal/rle/rle.go", "if r.groupCount >= 63 {", "if r.groupCount > 63 {", "C07"),
 ("rle_leb_mask", "internal/rle/rle.go", "mask1 = uint64(0x7F)", "mask1 = uint64(0x3F)", "C07 C04"),
 ("rle_repeat_reset", "internal/rle/rle.go", "	r.bufCount = 0\n	r.repeatCount = 0\n	r.groupCount++", "	r.bufCount = 0\n	r.groupCount++", "C07"),
 ("bitpack_mask", "internal/bitpack/bitpack.go", "byte((vals[5]&7)<<7)", "byte((vals[5]&3)<<7)", "C17 C07"),
 ("readfull_to_read", "fields.go", "if _, err := io.ReadFull(r, compressed); err != nil {", "if _, err := r.Read(compressed); err != nil {", "C08"),
 ("swallow_body_write", "fields.go", "	if err := meta.WritePageHeader(w, f.pth, l, cl, len(f.Defs), count, defLen, repLen, f.compression, stats); err != nil {\n		return err\n	}\n	_, err = w.Write(vals)\n	return err", "	if err := meta.WritePageHeader(w, f.pth, l, cl, len(f.Defs), count, defLen, repLen, f.compression, stats); err != nil {\n		return err\n	}\n	w.Write(vals)\n	return nil", "C09"),
 ("footer_len_err", "parquet.go", "	return binary.Write(w, binary.LittleEndian, uint32(n))", "	binary.Write(w, binary.LittleEndian, uint32(n))\n	return nil", "C09"),
 ("begin_err", "cmd/parquetgen/gen/template.go", "	_, err := p.w.Write(par1)\n	return err\n}\n\nfunc withMeta", "	p.w.Write(par1)\n	return nil\n}\n\nfunc withMeta", "C09"),
 ("meta_err_ignored", "parquet.go", "	meta, err := ReadMetaData(r)\n	m.metadata = meta\n	return err", "	meta, _ := ReadMetaData(r)\n	if meta != nil {\n		m.metadata = meta\n	}\n	return nil", "C10 C11"),
 ("pagedata_partial", "fields.go", "		if _, err := io.ReadFull(r, data); err != nil {\n			return nil, err\n		}", "		if _, err := io.ReadFull(r, data); err != nil && err != io.ErrUnexpectedEOF {\n			return nil, err\n		}", "C10 C11"),
 ("stats_unsigned_signed", "cmd/parquetgen/gen/template_required.go", "	if val < i.min {\n		i.min = val\n	}", "	if int64(val) < int64(i.min) {\n		i.min = val\n	}", "C12"),
 ("nullcount_def0", "cmd/parquetgen/gen/template_optional.go", "		if def < f.maxDef {\n			f.nils++", "		if def == 0 {\n			f.nils++", "C12"),
 ("pool_put_early", None, None, None, "C13"),
 ("dash_tag_dropped", "cmd/parquetgen/parse/parse.go", "	}, tag == \"-\"\n", "	}, false && tag == \"-\"\n", "C14"),
 ("pageheaders_uncompressed", "parquet.go", "		_, err = r.Seek(int64(ph.CompressedPageSize), io.SeekCurrent)", "		_, err = r.Seek(int64(ph.UncompressedPageSize), io.SeekCurrent)", "C16"),
 ("checkpage_first_only", "fields.go", "		if err := checkDataPage(ph, f.MaxLevels.Def > 0, f.repeated); err != nil {\n			return nil, nil, err\n		}", "		if nRead == 0 {\n			if err := checkDataPage(ph, f.MaxLevels.Def > 0, f.repeated); err != nil {\n				return nil, nil, err\n			}\n		}", "C18"),
 ("checkpage_req_skipped", "fields.go", "		if err := checkDataPage(ph, false, false); err != nil {\n			return nil, nil, err\n		}\n", "		if ph.DataPageHeader == nil {\n			return nil, nil, fmt.Errorf(\"unsupported page\")\n		}\n", "C18"),
 ("lastrep_not_raised", "cmd/parquetgen/dremel/read_repeated.go", "             if i{{.Rep}} >= 1 {", "             if i{{.Rep}} > 1 {", "C03 C05 C01"),
 ("maxdef_optionals_only", "fields.go", "		if rt == Optional || rt == Repeated {\n			out++\n		}\n	}\n	return out\n}\n\n// MaxRep", "		if rt == Optional {\n			out++\n		}\n	}\n	return out\n}\n\n// MaxRep", None),
 ("schema_children", "parquet.go", "				*parent.NumChildren++\n			}\n			parent = g", "			}\n			parent = g", "C02 C15"),
 ("struct_optional_lost", "cmd/parquetgen/structs/structs.go", "elem.RepetitionType != nil && *elem.RepetitionType == sch.FieldRepetitionType_OPTIONAL", "elem.RepetitionType != nil && *elem.RepetitionType == sch.FieldRepetitionType_OPTIONAL && elem.Type != nil", "C15"),
 ("gzip_codec_file_wide", "fields.go", "	case sch.CompressionCodec_GZIP:\n		var buf bytes.Buffer", "	case sch.CompressionCodec_GZIP, sch.CompressionCodec_LZO:\n		var buf bytes.Buffer", "C18"),
]
def run(*a, **k):
    return subprocess.run(a, cwd=WT, stdout=subprocess.PIPE, stderr=subprocess.STDOUT, text=True, **k)
res = []
for name, fn, old, new, props in M:
    if fn is None:
        continue
    run("git", "checkout", "--", ".")
    p = os.path.join(WT, fn)
    s = open(p).read()
    if old not in s:
        print("!! pattern not found for", name)
        continue
    s = s.replace(old, new, 1)
    if name == "scan_slice1":
        s = s.replace("f.vals = f.vals[min1(v):]", "f.vals = f.vals[1:]")
    open(p, "w").write(s)
    d = run("git", "diff").stdout
    open(os.path.join(OUT, name + ".diff"), "w").write(d)
    res.append((name, props))
run("git", "checkout", "--", ".")
for n, p in res:
    print(n, p)

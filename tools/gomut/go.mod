module gomut

go 1.23

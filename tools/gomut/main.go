// gomut lists token-level mutations of Go source files (and of the Go code held in raw string
// literals, which is where parquetgen keeps its templates) as JSON lines:
//   {"file":..., "off":..., "len":..., "new":..., "line":..., "desc":...}
// It is a sensitivity tool for /verif's checks: tools/automut.py applies one mutation at a time
// in a scratch worktree, drops those the existing suite kills, and runs the quick checks on the rest.
package main

import (
	"encoding/json"
	"fmt"
	"go/scanner"
	"go/token"
	"os"
	"strconv"
	"strings"
)

type Mut struct {
	File string `json:"file"`
	Off  int    `json:"off"`
	Len  int    `json:"len"`
	New  string `json:"new"`
	Line int    `json:"line"`
	Desc string `json:"desc"`
}

var swaps = map[token.Token][]string{
	token.LSS: {"<="}, token.LEQ: {"<"}, token.GTR: {">="}, token.GEQ: {">"},
	token.EQL: {"!="}, token.NEQ: {"=="}, token.LAND: {"||"}, token.LOR: {"&&"},
	token.ADD: {"-"}, token.SUB: {"+"}, token.SHL: {">>"}, token.SHR: {"<<"},
	token.ADD_ASSIGN: {"-="}, token.SUB_ASSIGN: {"+="},
}

func scan(file string, src []byte, base int, lineBase int, depth int, out *[]Mut) {
	fset := token.NewFileSet()
	f := fset.AddFile(file, -1, len(src))
	var s scanner.Scanner
	s.Init(f, src, func(pos token.Position, msg string) {}, 0)
	prev := token.ILLEGAL
	for {
		pos, tok, lit := s.Scan()
		if tok == token.EOF {
			break
		}
		off := f.Offset(pos)
		line := lineBase + f.Line(pos) - 1
		add := func(l int, nw, desc string) {
			*out = append(*out, Mut{File: file, Off: base + off, Len: l, New: nw, Line: line, Desc: desc})
		}
		switch tok {
		case token.STRING:
			if depth == 0 && strings.HasPrefix(lit, "`") && len(lit) > 40 && strings.Contains(lit, "\n") {
				inner := []byte(lit[1 : len(lit)-1])
				scan(file, inner, base+off+1, line, depth+1, out)
			}
		case token.INT:
			if v, err := strconv.ParseInt(lit, 0, 64); err == nil && v < 1<<31 {
				add(len(lit), strconv.FormatInt(v+1, 10), lit+" -> "+strconv.FormatInt(v+1, 10))
				if v > 0 {
					add(len(lit), strconv.FormatInt(v-1, 10), lit+" -> "+strconv.FormatInt(v-1, 10))
				}
			}
		default:
			if reps, ok := swaps[tok]; ok {
				if (tok == token.SUB || tok == token.ADD) && !(prev == token.IDENT || prev == token.INT || prev == token.RPAREN || prev == token.RBRACK) {
					break // unary
				}
				if depth > 0 && (tok == token.LSS || tok == token.GTR || tok == token.SUB) {
					// inside template text "<", ">" and "-" are as likely to be prose or template syntax as Go operators; keep those followed/preceded by a space
					if off == 0 || off+1 >= len(src) || src[off-1] != ' ' || src[off+1] != ' ' {
						break
					}
				}
				for _, r := range reps {
					add(len(tok.String()), r, tok.String()+" -> "+r)
				}
			}
		}
		if tok != token.SEMICOLON || lit != "\n" {
			prev = tok
		}
	}
	// error swallowing: "err != nil {"  ->  "err != nil && false {"
	txt := string(src)
	idx := 0
	for {
		i := strings.Index(txt[idx:], "err != nil {")
		if i < 0 {
			break
		}
		at := idx + i
		line := lineBase + strings.Count(txt[:at], "\n")
		*out = append(*out, Mut{File: file, Off: base + at, Len: len("err != nil {"), New: "err != nil && false {", Line: line, Desc: "error check disabled"})
		idx = at + 1
	}
}

func main() {
	enc := json.NewEncoder(os.Stdout)
	for _, fn := range os.Args[1:] {
		src, err := os.ReadFile(fn)
		if err != nil {
			fmt.Fprintln(os.Stderr, err)
			os.Exit(1)
		}
		var out []Mut
		scan(fn, src, 0, 1, 0, &out)
		// nested scans of raw strings re-find the "err != nil {" sites of the outer text: drop duplicates
		seen := map[string]bool{}
		for _, m := range out {
			k := fmt.Sprintf("%d/%d/%s", m.Off, m.Len, m.New)
			if seen[k] {
				continue
			}
			seen[k] = true
			enc.Encode(m)
		}
	}
}

package props

import (
	"bytes"
	"fmt"
	"testing"

	"verifharness/fx"
	"verifharness/pqref"
	"verifharness/vt"
)

// footerSweep builds conformant foreign files whose footer length takes every value in a window around
// powers of two (4 KiB .. 128 KiB) - the sizes at which read-ahead buffers, limits and "fits in one block"
// shortcuts change behaviour - by steering the length of the optional created_by string, and applies check to each.
func footerSweep(t *testing.T, prop string, check func(c *ForeignCase, file []byte, footerLen int) *Outcome) {
	nsh, idx := envInt("VERIF_NSHARDS", 1), envInt("VERIF_SHARDIDX", 0)
	f := fx.Get("tiny")
	var recs []*vt.Val
	for i := 0; i < 9; i++ {
		recs = append(recs, tinyRec(i))
	}
	mk := func(cbl int, codec int32) *ForeignCase {
		c := &ForeignCase{Fixture: "tiny", Batches: [][]*vt.Val{recs[:5], recs[5:]}, Phys: &pqref.FilePhys{CreatedByLen: cbl}}
		for range c.Batches {
			var chunks []pqref.ChunkPhys
			for range f.Root.Columns() {
				chunks = append(chunks, pqref.ChunkPhys{Codec: codec, Pages: nil})
			}
			c.Phys.Chunks = append(c.Phys.Chunks, chunks)
		}
		for gi, b := range c.Batches {
			for ci := range c.Phys.Chunks[gi] {
				c.Phys.Chunks[gi][ci].Pages = []pqref.PagePhys{{Records: len(b), Stats: 2}}
			}
		}
		return c
	}
	footerLen := func(c *ForeignCase) (int, []byte) {
		file, err := pqref.WriteFile(f.Root, c.Batches, c.Phys)
		if err != nil {
			t.Fatalf("HARNESS SELF-CHECK FAILED: %v", err)
		}
		pf, err := pqref.ParseFile(file, pqref.Options{})
		if err != nil {
			t.Fatalf("HARNESS SELF-CHECK FAILED: walker rejects the sweep file: %v", err)
		}
		return pf.FooterLen, file
	}
	var n int64
	k := 0
	for _, codec := range []int32{pqref.CodecUncompressed, pqref.CodecSnappy} {
		base, _ := footerLen(mk(1, codec)) // footer with a 1-byte created_by
		for p := 12; p <= 17; p++ {
			for d := -12; d <= 12; d++ {
				k++
				if k%nsh != idx {
					continue
				}
				target := 1<<uint(p) + d
				// footer = base - 1 + L + (varint length of L - 1); try the candidates around the estimate
				var c *ForeignCase
				var file []byte
				got := 0
				for L := target - base - 2; L <= target-base+3; L++ {
					if L < 1 {
						continue
					}
					c = mk(L, codec)
					got, file = footerLen(c)
					if got == target {
						break
					}
				}
				if got != target {
					continue // (not every length is reachable when the varint grows; the neighbours are)
				}
				if o := guard(prop, func() *Outcome { return check(c, file, got) }); o != nil {
					o.Msg = fmt.Sprintf("[footer of exactly %d bytes = 2^%d%+d, codec %d] %s", got, p, d, codec, o.Msg)
					if isKnown(prop, o.Key) {
						continue
					}
					saveFail(prop, map[string]interface{}{"foreign": c}, o)
					t.Fatalf("%s violated: %s", prop, o.Error())
				}
				n++
			}
		}
	}
	recordX(statLine{P: prop, H: fmt.Sprintf("footer-sweep-%d", idx), N: n, DN: n, L: []string{"footer-length-sweep(2^12..2^17 +-12)"}}, func() interface{} {
		return map[string]interface{}{"stage": "footer length sweep", "files": n}
	})
}

func TestC16FooterSweep(t *testing.T) {
	footerSweep(t, "C16", func(c *ForeignCase, file []byte, fl int) *Outcome { return introspectionCheck("C16", file) })
}

func TestC04FooterSweep(t *testing.T) {
	footerSweep(t, "C04", func(c *ForeignCase, file []byte, fl int) *Outcome {
		f := fx.Get(c.Fixture)
		var all []*vt.Val
		for _, b := range c.Batches {
			all = append(all, b...)
		}
		recs, _, rd, err := readAll(f, bytes.NewReader(file), len(all)+5)
		if err != nil {
			return viol("C04/reader-error", "NewParquetReader rejects a conformant file: %v", err)
		}
		if rd.Error() != nil || len(recs) != len(all) {
			return viol("C04/reader-error", "reader delivered %d of %d rows, Error() = %v", len(recs), len(all), rd.Error())
		}
		for i := range recs {
			if d := vt.Diff(f.Root, all[i], recs[i], ""); d != "" {
				return viol("C04/mismatch", "row %d differs: %s", i, d)
			}
		}
		return nil
	})
}

package props

import (
	"bytes"
	"fmt"
	"os"
	"testing"

	"pgregory.net/rapid"

	"verifharness/fx"
	"verifharness/pqref"
	"verifharness/vt"
)

// ForeignCase is logical content plus a complete physical description for the independent writer.
type ForeignCase struct {
	Fixture string          `json:"fixture"`
	Batches [][]*vt.Val     `json:"batches"`
	Phys    *pqref.FilePhys `json:"phys"`
}

type foreignCfg struct {
	fixtures []string
	maxRecs  int
	gen      vt.GenCfg
	plain    bool // conservative physical choices only (used as the base for C18)
}

func genBatches(t *rapid.T, f *fx.Fixture, cfg foreignCfg) [][]*vt.Val {
	nrg := rapid.IntRange(1, 3).Draw(t, "rowGroups")
	var out [][]*vt.Val
	for g := 0; g < nrg; g++ {
		var n int
		switch rapid.IntRange(0, 9).Draw(t, "sizeClass") {
		case 0, 1, 2, 3, 4, 5:
			n = rapid.IntRange(1, 10).Draw(t, "n")
		case 6, 7, 8:
			n = rapid.IntRange(11, 40).Draw(t, "n")
		default:
			lo := 41
			if cfg.maxRecs < lo {
				lo = 1
			}
			n = rapid.IntRange(lo, cfg.maxRecs).Draw(t, "n")
		}
		if n > cfg.maxRecs {
			n = cfg.maxRecs
		}
		var recs []*vt.Val
		for i := 0; i < n; i++ {
			recs = append(recs, vt.GenRecord(t, f.Root, cfg.gen))
		}
		out = append(out, recs)
	}
	return out
}

func genPhys(t *rapid.T, root *vt.Node, batches [][]*vt.Val, plain bool) *pqref.FilePhys {
	return genPhysPages(t, root, batches, plain, false)
}

// genPhysPages: with onePageOnly every column chunk is a single page (long level runs stay in one stream).
func genPhysPages(t *rapid.T, root *vt.Node, batches [][]*vt.Val, plain bool, onePageOnly bool) *pqref.FilePhys {
	cols := root.Columns()
	ph := &pqref.FilePhys{}
	if !plain {
		ph.CreatedBy = rapid.Bool().Draw(t, "createdBy")
		ph.KV = rapid.Bool().Draw(t, "kv")
		ph.ColumnOrders = rapid.Bool().Draw(t, "columnOrders")
		ph.RGExtras = rapid.Bool().Draw(t, "rgExtras")
		ph.FieldIDs = rapid.Bool().Draw(t, "fieldIDs")
	}
	codecs := []int32{pqref.CodecUncompressed, pqref.CodecSnappy, pqref.CodecGzip}
	fileCodec := rapid.SampledFrom(codecs).Draw(t, "fileCodec")
	mixed := !plain && rapid.Bool().Draw(t, "mixedCodecs")
	for gi, recs := range batches {
		var chunks []pqref.ChunkPhys
		for ci, col := range cols {
			cp := pqref.ChunkPhys{Codec: fileCodec}
			if mixed {
				cp.Codec = rapid.SampledFrom(codecs).Draw(t, "codec")
			}
			if !plain {
				cp.MetaStats = rapid.Bool().Draw(t, "metaStats")
				cp.EncStats = rapid.Bool().Draw(t, "encStats")
				cp.KV = rapid.IntRange(0, 3).Draw(t, "colKV") == 0
				cp.LegacyLabels = rapid.IntRange(0, 3).Draw(t, "legacyLabels") == 0
				cp.ZeroOffsets = rapid.IntRange(0, 3).Draw(t, "zeroOffsets") == 0
			}
			// page splits at record boundaries, independent per column
			n := len(recs)
			var sizes []int
			rem := n
			for rem > 0 {
				var k int
				if onePageOnly || rapid.IntRange(0, 2).Draw(t, "onePage") == 0 {
					k = rem
				} else {
					k = rapid.IntRange(1, rem).Draw(t, "pageRecs")
				}
				sizes = append(sizes, k)
				rem -= k
			}
			r := 0
			for _, k := range sizes {
				pp := pqref.PagePhys{Records: k}
				if !plain {
					var reps, defs []uint8
					for _, rec := range recs[r : r+k] {
						for _, tr := range pqref.Shred(col, rec) {
							reps = append(reps, uint8(tr.Rep))
							defs = append(defs, uint8(tr.Def))
						}
					}
					if col.MaxRep > 0 {
						pp.RepSegs = genSegs(t, reps)
					}
					if col.MaxDef > 0 {
						pp.DefSegs = genSegs(t, defs)
					}
					if rapid.IntRange(0, 2).Draw(t, "padNonZero") == 0 {
						pp.Pad = uint8(rapid.IntRange(0, 15).Draw(t, "pad"))
					}
					pp.Stats = rapid.IntRange(0, 3).Draw(t, "stats")
					pp.Snappy = rapid.IntRange(0, 2).Draw(t, "snappyMode")
					pp.CRC = rapid.IntRange(0, 4).Draw(t, "crc") == 0
				} else {
					// conservative encoding, but optional header fields (statistics, crc) still vary
					pp.Stats = rapid.SampledFrom([]int{0, 2, 2}).Draw(t, "stats")
					pp.CRC = rapid.Bool().Draw(t, "crc")
				}
				r += k
				cp.Pages = append(cp.Pages, pp)
			}
			chunks = append(chunks, cp)
			_ = ci
		}
		ph.Chunks = append(ph.Chunks, chunks)
		_ = gi
	}
	return ph
}

func foreignLabels(root *vt.Node, c *ForeignCase) (l []string, nt bool) {
	l = append(l, "fixture="+c.Fixture)
	codecs := map[int32]bool{}
	var longBP, rleOdd, handSnappy, diffSplits, nonZeroPad bool
	for _, rg := range c.Phys.Chunks {
		var split0 []int
		for ci, ch := range rg {
			codecs[ch.Codec] = true
			var split []int
			for _, p := range ch.Pages {
				split = append(split, p.Records)
				for _, s := range append(append([]pqref.Run{}, p.RepSegs...), p.DefSegs...) {
					if !s.RLE && s.Count > 63 {
						longBP = true
					}
					if s.RLE && s.Count%8 != 0 {
						rleOdd = true
					}
				}
				if p.Snappy > 0 && ch.Codec == pqref.CodecSnappy {
					handSnappy = true
				}
				if p.Pad != 0 {
					nonZeroPad = true
				}
			}
			if ci == 0 {
				split0 = split
			} else if fmt.Sprint(split) != fmt.Sprint(split0) {
				diffSplits = true
			}
		}
	}
	add := func(b bool, s string) {
		if b {
			l = append(l, s)
			nt = true
		}
	}
	add(longBP, "bitpacked-run>63-groups")
	add(rleOdd, "rle-run-length-not-multiple-of-8")
	add(diffSplits, "page-splits-differ-between-columns")
	add(len(codecs) > 1, "mixed-codecs")
	add(handSnappy, "hand-rolled-snappy")
	if nonZeroPad {
		l = append(l, "nonzero-padding-requested")
	}
	if len(c.Batches) > 1 {
		l = append(l, "rowgroups>=2")
	}
	if len(c.Batches) == 1 && len(c.Batches[0]) >= 8192 {
		l = append(l, "one-page-of->=8192-identical-records")
	}
	return
}

func (c *ForeignCase) sample() interface{} {
	f := fx.Get(c.Fixture)
	var sizes []int
	var first string
	for _, b := range c.Batches {
		sizes = append(sizes, len(b))
		if first == "" && len(b) > 0 {
			first = vt.Render(f.Root, b[0])
		}
	}
	var pages [][]int
	var codecs []int32
	for _, ch := range c.Phys.Chunks[0] {
		var p []int
		for _, pg := range ch.Pages {
			p = append(p, pg.Records)
		}
		pages = append(pages, p)
		codecs = append(codecs, ch.Codec)
	}
	return map[string]interface{}{"fixture": c.Fixture, "row_group_sizes": sizes, "first_record": first,
		"rg0_page_records_per_column": pages, "rg0_codec_per_column": codecs, "inject": c.Phys.Inject,
		"footer_extras": fmt.Sprintf("created_by=%v kv=%v column_orders=%v rg_extras=%v field_ids=%v", c.Phys.CreatedBy, c.Phys.KV, c.Phys.ColumnOrders, c.Phys.RGExtras, c.Phys.FieldIDs)}
}

// buildForeign writes the file and validates it with the harness's own walker (self-check).
func buildForeign(prop string, c *ForeignCase) ([]byte, *Outcome) {
	f := fx.Get(c.Fixture)
	file, err := pqref.WriteFile(f.Root, c.Batches, c.Phys)
	if err != nil {
		return nil, viol(prop+"/harness", "foreign writer: %v", err)
	}
	return file, nil
}

func checkC04(c *ForeignCase) *Outcome {
	return guard("C04", func() *Outcome {
		f := fx.Get(c.Fixture)
		file, o := buildForeign("C04", c)
		if o != nil {
			return o
		}
		pf, err := pqref.ParseFile(file, pqref.Options{})
		if err != nil {
			return viol("C04/harness", "the harness's own walker rejects the foreign file: %v", err)
		}
		var all []*vt.Val
		var sizes []int
		for _, b := range c.Batches {
			all = append(all, b...)
			sizes = append(sizes, len(b))
		}
		if o := stripingCheck("C04", f.Root, pf, all, sizes); o != nil {
			return viol("C04/harness", "foreign file does not hold the logical content: %s", o.Error())
		}
		recs, _, rd, err := readAll(f, bytes.NewReader(file), len(all)+5)
		if err != nil {
			return viol("C04/reader-error", "NewParquetReader rejects a conformant file: %v", err)
		}
		if e := rd.Error(); e != nil {
			return viol("C04/reader-error", "Error() = %v on a conformant file after %d rows", e, len(recs))
		}
		if rd.Rows() != int64(len(all)) || len(recs) != len(all) {
			return viol("C04/row-count", "reader delivered %d rows (Rows() = %d), the file holds %d", len(recs), rd.Rows(), len(all))
		}
		for i := range recs {
			if d := vt.Diff(f.Root, all[i], recs[i], ""); d != "" {
				return viol("C04/mismatch", "row %d differs from the file's logical content: %s", i, d)
			}
		}
		return nil
	})
}

var c04Fixtures = []string{"flat24", "nest", "tiny", "rep3", "reqopt"}

func TestC04(t *testing.T) { rapid.Check(t, propC04) }

// FuzzC04: the same property driven by Go's coverage-guided fuzzer (thorough tier).
func FuzzC04(f *testing.F) {
	fuzzSeeds(f)
	f.Fuzz(rapid.MakeFuzz(propC04))
}

func propC04(t *rapid.T) {
	cfg := foreignCfg{fixtures: fixturesFromEnv(c04Fixtures), maxRecs: envInt("VERIF_MAXRECS", 120), gen: vt.DefaultGen}
	cfg.gen.LongList = 700
	cfg.gen.LongStr = 6000 // min/max statistics make page headers larger than 4 KiB
	{
		c := &ForeignCase{Fixture: rapid.SampledFrom(cfg.fixtures).Draw(t, "fixture")}
		f := fx.Get(c.Fixture)
		// ~3 %: one page per column with 8192..9300 identical records, so every level stream is one run whose
		// header needs three LEB128 bytes when the writer emits it as a single RLE run (a window in the middle of the
		// range: rapid favours the ends of an IntRange)
		if b := rapid.IntRange(0, 99).Draw(t, "longRunPct"); b >= 50 && b < 53 && fx.Has("tiny") {
			c.Fixture = "tiny"
			f = fx.Get(c.Fixture)
			rec := vt.GenRecord(t, f.Root, vt.DefaultGen)
			n := rapid.IntRange(8192, 9300).Draw(t, "longRunRecords")
			recs := make([]*vt.Val, n)
			for i := range recs {
				recs[i] = rec
			}
			c.Batches = [][]*vt.Val{recs}
			c.Phys = genPhysPages(t, f.Root, c.Batches, false, true)
		} else {
			c.Batches = genBatches(t, f, cfg)
			c.Phys = genPhys(t, f.Root, c.Batches, false)
		}
		o := checkC04(c)
		l, nt := foreignLabels(f.Root, c)
		record("C04", hashOf(c), nt, l, c.sample)
		verdict(t, "C04", c, o)
	}
}

func TestReplayC04(t *testing.T) {
	p := os.Getenv("VERIF_REPLAY")
	if p == "" {
		t.Skip()
	}
	var c ForeignCase
	if err := loadReplay(p, &c); err != nil {
		t.Fatal(err)
	}
	replayResult(t, "C04", checkC04(&c))
}

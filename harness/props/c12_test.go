package props

import (
	"bytes"
	"encoding/binary"
	"math"
	"os"
	"testing"

	"pgregory.net/rapid"

	"verifharness/fx"
	"verifharness/pqref"
	"verifharness/vt"
)

// leq reports a <= b in the column order of the leaf; ok=false if either is NaN.
func statLeq(leaf *pqref.Leaf, a, b vt.Val) (leq bool, comparable bool) {
	conv := int32(-1)
	if leaf.El.Converted != nil {
		conv = *leaf.El.Converted
	}
	switch *leaf.El.Type {
	case pqref.TypeInt32:
		if conv == pqref.ConvUint32 {
			return uint32(a.U) <= uint32(b.U), true
		}
		return int32(a.U) <= int32(b.U), true
	case pqref.TypeInt64:
		if conv == pqref.ConvUint64 {
			return a.U <= b.U, true
		}
		return int64(a.U) <= int64(b.U), true
	case pqref.TypeFloat:
		x, y := math.Float32frombits(uint32(a.U)), math.Float32frombits(uint32(b.U))
		if x != x || y != y {
			return false, false
		}
		return x <= y, true
	case pqref.TypeDouble:
		x, y := math.Float64frombits(a.U), math.Float64frombits(b.U)
		if x != x || y != y {
			return false, false
		}
		return x <= y, true
	case pqref.TypeBoolean:
		return a.U <= b.U, true
	case pqref.TypeByteArray:
		return bytes.Compare(a.S, b.S) <= 0, true
	}
	return false, false
}

func decodeStat(leaf *pqref.Leaf, b []byte) (vt.Val, bool) {
	switch *leaf.El.Type {
	case pqref.TypeInt32, pqref.TypeFloat:
		if len(b) != 4 {
			return vt.Val{}, false
		}
		return vt.Val{U: uint64(binary.LittleEndian.Uint32(b))}, true
	case pqref.TypeInt64, pqref.TypeDouble:
		if len(b) != 8 {
			return vt.Val{}, false
		}
		return vt.Val{U: binary.LittleEndian.Uint64(b)}, true
	case pqref.TypeBoolean:
		if len(b) != 1 {
			return vt.Val{}, false
		}
		return vt.Val{U: uint64(b[0] & 1)}, true
	case pqref.TypeByteArray:
		return vt.Val{S: vt.Bytes(b)}, true
	}
	return vt.Val{}, false
}

func isNaNVal(leaf *pqref.Leaf, v vt.Val) bool {
	switch *leaf.El.Type {
	case pqref.TypeFloat:
		x := math.Float32frombits(uint32(v.U))
		return x != x
	case pqref.TypeDouble:
		x := math.Float64frombits(v.U)
		return x != x
	}
	return false
}

// statsCheck applies the C12 oracle to every page of a parsed file.
// It returns class labels of what was seen.
func statsCheck(prop string, pf *pqref.File) (*Outcome, map[string]bool) {
	seen := map[string]bool{}
	for gi, rg := range pf.RowGroups {
		for ci, ch := range rg.Chunks {
			leaf := ch.Leaf
			col := ch.Col.Meta.Path
			kind := "kind=" + typeName(leaf)
			for pi, pg := range ch.Pages {
				where := func() string {
					return "row group " + itoa(gi) + " column " + itoa(ci) + " " + joinPath(col) + " page " + itoa(pi)
				}
				st := pg.Header.Data.Stats
				n := int(pg.Header.Data.NumValues)
				nulls := 0
				if leaf.MaxDef > 0 {
					for _, d := range pg.Defs {
						if int(d) < leaf.MaxDef {
							nulls++
						}
					}
				}
				nonNull := n - nulls
				if st == nil {
					// no statistics at all: nothing claimed, nothing wrong
					continue
				}
				if leaf.MaxDef > 0 {
					if st.NullCount == nil {
						return viol(prop+"/null-count-missing/"+kind, "%s: column has levels but null_count is absent", where()), seen
					}
					if *st.NullCount != int64(nulls) {
						return viol(prop+"/null-count/"+kind, "%s: null_count %d, page has %d entries without a value (of %d)", where(), *st.NullCount, nulls, n), seen
					}
				} else if st.NullCount != nil && *st.NullCount != 0 {
					return viol(prop+"/null-count/"+kind, "%s: required column with null_count %d", where(), *st.NullCount), seen
				}
				pairs := [][2][]byte{{st.MinValue, st.MaxValue}, {st.Min, st.Max}}
				for k, pr := range pairs {
					mn, mx := pr[0], pr[1]
					if mn == nil && mx == nil {
						continue
					}
					if nonNull == 0 {
						return viol(prop+"/minmax-on-empty/"+kind, "%s: page has no non-null value but min/max are present (pair %d)", where(), k), seen
					}
					var vmin, vmax vt.Val
					var okmin, okmax bool
					if mn != nil {
						vmin, okmin = decodeStat(leaf, mn)
						if !okmin {
							return viol(prop+"/minmax-malformed/"+kind, "%s: min has %d bytes", where(), len(mn)), seen
						}
					}
					if mx != nil {
						vmax, okmax = decodeStat(leaf, mx)
						if !okmax {
							return viol(prop+"/minmax-malformed/"+kind, "%s: max has %d bytes", where(), len(mx)), seen
						}
					}
					distinct := map[string]bool{}
					for _, v := range pg.Values {
						if isNaNVal(leaf, v) {
							seen["nan-in-page"] = true
							continue
						}
						distinct[string(v.S)+"/"+itoa64(v.U)] = true
						if okmin {
							le, cmp := statLeq(leaf, vmin, v)
							if !cmp || !le {
								return viol(prop+"/min-unsound/"+kind, "%s: min %s is not <= value %s", where(), showStat(leaf, vmin), showStat(leaf, v)), seen
							}
						}
						if okmax {
							le, cmp := statLeq(leaf, v, vmax)
							if !cmp || !le {
								return viol(prop+"/max-unsound/"+kind, "%s: value %s is not <= max %s", where(), showStat(leaf, v), showStat(leaf, vmax)), seen
							}
						}
					}
					if len(distinct) >= 2 {
						seen["page-with->=2-distinct-values"] = true
					}
					seen["minmax-checked/"+kind] = true
				}
				if nonNull == 0 {
					seen["all-null-page"] = true
				}
			}
		}
	}
	return nil, seen
}

func typeName(l *pqref.Leaf) string {
	n := [...]string{"boolean", "int32", "int64", "int96", "float", "double", "byte_array", "fixed"}[*l.El.Type]
	if l.El.Converted != nil {
		if *l.El.Converted == pqref.ConvUint32 {
			n = "uint32"
		}
		if *l.El.Converted == pqref.ConvUint64 {
			n = "uint64"
		}
	}
	return n
}

func showStat(l *pqref.Leaf, v vt.Val) string {
	switch typeName(l) {
	case "int32":
		return itoa64(uint64(int64(int32(v.U))))
	case "byte_array":
		return "\"" + string(v.S) + "\""
	}
	return "bits:" + itoa64(v.U)
}

func itoa(i int) string { return itoa64(uint64(int64(i))) }
func itoa64(u uint64) string {
	i := int64(u)
	neg := i < 0
	if neg {
		u = uint64(-i)
	}
	if u == 0 {
		return "0"
	}
	var b [24]byte
	p := len(b)
	for u > 0 {
		p--
		b[p] = byte('0' + u%10)
		u /= 10
	}
	if neg {
		p--
		b[p] = '-'
	}
	return string(b[p:])
}
func joinPath(p []string) string {
	s := ""
	for i, x := range p {
		if i > 0 {
			s += "."
		}
		s += x
	}
	return s
}

type StatsCase struct {
	Class string    `json:"class"`
	W     *Workload `json:"w"`
}

func checkC12(c *StatsCase) (*Outcome, map[string]bool) {
	var seen map[string]bool
	o := guard("C12", func() *Outcome {
		file, o := writeWorkload(c.W, "C12", false)
		if o != nil {
			return o
		}
		pf, err := pqref.ParseFile(file, pqref.Options{AllowGaps: true})
		if err != nil {
			return problemKey("C12", err)
		}
		o, seen = statsCheck("C12", pf)
		return o
	})
	return o, seen
}

var c12Fixtures = []string{"flat24", "nest", "tiny", "stats2"}
var c12Classes = []string{"", "", "neg", "tiny", "nan", "sentinel", "longstr"}

func TestC12(t *testing.T) {
	rapid.Check(t, func(t *rapid.T) {
		c := &StatsCase{Class: rapid.SampledFrom(c12Classes).Draw(t, "class")}
		cfg := wlCfg{fixtures: fixturesFromEnv(c12Fixtures), maxRecs: envInt("VERIF_MAXRECS", 40), gen: vt.DefaultGen}
		cfg.gen.Class = c.Class
		cfg.gen.NullPct = rapid.SampledFrom([]int{10, 33, 80}).Draw(t, "nullpct")
		c.W = genWorkload(t, cfg)
		if rapid.Bool().Draw(t, "smallpages") {
			c.W.PageSize = rapid.IntRange(1, 8).Draw(t, "ps")
		}
		o, seen := checkC12(c)
		labels := append(c.W.labels(), "class="+c.Class)
		nt := false
		for k := range seen {
			if k == "page-with->=2-distinct-values" || k == "all-null-page" {
				nt = true
			}
		}
		for _, k := range sortedKeys(seen) {
			labels = append(labels, k)
		}
		record("C12", hashOf(c), nt, labels, func() interface{} {
			return map[string]interface{}{"class": c.Class, "workload": c.W.sample()}
		})
		verdict(t, "C12", c, o)
	})
}

func sortedKeys(m map[string]bool) []string {
	var out []string
	for k := range m {
		out = append(out, k)
	}
	// insertion sort (tiny)
	for i := 1; i < len(out); i++ {
		for j := i; j > 0 && out[j] < out[j-1]; j-- {
			out[j], out[j-1] = out[j-1], out[j]
		}
	}
	return out
}

func TestReplayC12(t *testing.T) {
	p := os.Getenv("VERIF_REPLAY")
	if p == "" {
		t.Skip()
	}
	var c StatsCase
	if err := loadReplay(p, &c); err != nil {
		t.Fatal(err)
	}
	o, _ := checkC12(&c)
	replayResult(t, "C12", o)
}

var _ = fx.Get

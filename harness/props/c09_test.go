package props

import (
	"bytes"
	"fmt"
	"io"
	"os"
	"strings"
	"testing"

	"pgregory.net/rapid"

	"verifharness/fx"
	"verifharness/pqref"
	"verifharness/vt"
)

// runWriterHistory runs the regular history of a workload against a sink and
// returns, per API call, the error it returned. It stops calling after Close.
type apiResult struct {
	api string
	err error
}

func runAgainstSink(w *Workload, s *faultSink) (res []apiResult) {
	return runAgainstSinkAs(w, s, s)
}

// runAgainstSinkAs hands dst (the sink itself or a wrapper exposing more methods) to the writer.
func runAgainstSinkAs(w *Workload, s *faultSink, dst io.Writer) (res []apiResult) {
	f := fx.Get(w.Fixture)
	s.api = "NewParquetWriter"
	pw, err := f.NewWriter(dst, w.PageSize, w.Codec)
	res = append(res, apiResult{"NewParquetWriter", err})
	if err != nil || pw == nil {
		return res
	}
	i := 0
	for bi, b := range w.Batches {
		for j := 0; j < b; j++ {
			pw.Add(vt.Build(f.Root, w.Records[i], false).Interface())
			i++
		}
		s.api = fmt.Sprintf("Write#%d", bi)
		err := pw.Write()
		res = append(res, apiResult{s.api, err})
	}
	for j := 0; j < w.Pending; j++ {
		pw.Add(vt.Build(f.Root, w.Records[i], false).Interface())
		i++
	}
	s.api = "Close"
	res = append(res, apiResult{"Close", pw.Close()})
	return res
}

// classifySinkWrites maps every sink write of the fault-free run to the part of the file it carries.
func classifySinkWrites(file []byte, log []sinkWrite) []string {
	out := make([]string, len(log))
	pf, err := pqref.ParseFile(file, pqref.Options{AllowGaps: true})
	hdr := map[int]bool{}
	footer := -1
	if err == nil {
		footer = pf.FooterOff
		for _, rg := range pf.RowGroups {
			for _, ch := range rg.Chunks {
				for _, pg := range ch.Pages {
					hdr[int(pg.Offset)] = true
				}
			}
		}
	}
	for i, w := range log {
		switch {
		case w.off == 0:
			out[i] = "magic"
		case w.off == len(file)-4:
			out[i] = "trailing-magic"
		case w.off == len(file)-8:
			out[i] = "footer-length"
		case w.off == footer:
			out[i] = "footer"
		case hdr[w.off]:
			out[i] = "page-header"
		default:
			out[i] = "page-body"
		}
	}
	return out
}

// mode = <persistence>[+temp][+file]: the error kind (plain / net-style Temporary+Timeout) and what the sink
// looks like to the writer (a bare io.Writer / something with Seek and Truncate like *os.File)
var sinkModes = []string{"once", "sticky", "short", "sticky+temp", "once+temp", "once+file", "sticky+file"}

type SinkFaultCase struct {
	W    *Workload `json:"w"`
	K    int       `json:"k"`
	Mode string    `json:"mode"`
}

func checkSinkFault(c *SinkFaultCase) *Outcome {
	return guard("C09", func() *Outcome {
		parts := strings.Split(c.Mode, "+")
		s := &faultSink{failAt: c.K, mode: parts[0]}
		var dst io.Writer = s
		for _, p := range parts[1:] {
			switch p {
			case "temp":
				s.temp = true
			case "file":
				dst = &fileSink{faultSink: s}
			}
		}
		res := runAgainstSinkAs(c.W, s, dst)
		if len(s.faultAPI) == 0 {
			return nil // the history ended before the k-th sink write (an earlier call reported an error and we stopped) - nothing injected
		}
		for _, api := range s.faultAPI[:1] {
			for _, r := range res {
				if r.api == api && r.err == nil {
					return viol("C09/swallowed/api="+apiClass(api), "sink write #%d failed (mode %s) during %s, but %s returned nil", c.K, c.Mode, api, api)
				}
			}
		}
		return nil
	})
}

func apiClass(api string) string {
	if len(api) >= 5 && api[:5] == "Write" {
		return "Write"
	}
	return api
}

// checkC09 enumerates every sink-write index of the workload for every mode.
func checkC09(w *Workload, emit func(k int, mode, class string)) *Outcome {
	var base *faultSink
	o := guard("C09", func() *Outcome {
		base = &faultSink{}
		res := runAgainstSink(w, base)
		for _, r := range res {
			if r.err != nil {
				return viol("C09/baseline", "fault-free run: %s returned %v", r.api, r.err)
			}
		}
		return nil
	})
	if o != nil {
		return o
	}
	classes := classifySinkWrites(base.buf, base.log)
	for k := 1; k <= base.calls; k++ {
		for _, mode := range sinkModes {
			c := &SinkFaultCase{W: w, K: k, Mode: mode}
			if o := checkSinkFault(c); o != nil {
				o.Msg = fmt.Sprintf("[k=%d mode=%s part=%s] %s", k, mode, classes[k-1], o.Msg)
				return o
			}
			if emit != nil {
				emit(k, mode, classes[k-1])
			}
		}
	}
	return nil
}

var c09Fixtures = []string{"tiny", "flat24", "nest"}

func TestC09(t *testing.T) {
	cfg := wlCfg{fixtures: fixturesFromEnv(c09Fixtures), maxRecs: envInt("VERIF_MAXRECS", 10), gen: vt.DefaultGen, noPatterns: true}
	cfg.gen.MaxList = 3
	cfg.gen.LongStr = 40000 // now and then a page body beyond 32 KiB
	rapid.Check(t, func(t *rapid.T) {
		w := genWorkload(t, cfg)
		if len(w.Records) > 1 && rapid.IntRange(0, 3).Draw(t, "pendingAtClose") == 0 {
			// the last batch is added but never written: Close runs with records pending
			w.Pending = w.Batches[len(w.Batches)-1]
			w.Batches = w.Batches[:len(w.Batches)-1]
		}
		if len(w.Batches) > 3 {
			// keep histories short: merge the tail
			n := 0
			for _, b := range w.Batches[2:] {
				n += b
			}
			w.Batches = append(w.Batches[:2:2], n)
		}
		if rapid.Bool().Draw(t, "smallpages") {
			w.PageSize = rapid.IntRange(1, 4).Draw(t, "ps")
		}
		h := hashOf(w)
		base := w.labels()
		o := checkC09(w, func(k int, mode, class string) {
			record("C09", fmt.Sprintf("%s/%d/%s", h, k, mode), true, append([]string{"part=" + class, "mode=" + mode, "codec=" + fx.CodecNames[w.Codec] + "/part=" + class}, base[:1]...), func() interface{} {
				return map[string]interface{}{"fail_sink_write": k, "mode": mode, "part_of_file": class, "workload": w.sample()}
			})
		})
		verdict(t, "C09", w, o)
	})
}

// TestC09Big: fault enumeration over the sink writes of files whose pages are large (one page per column of 70 KiB .. 300 KiB,
// required / optional / repeated columns, every codec, one and two row groups): size-dependent write paths of the page writers.
func TestC09Big(t *testing.T) {
	if !fx.Has("big") {
		t.Skip()
	}
	nsh, idx := envInt("VERIF_NSHARDS", 1), envInt("VERIF_SHARDIDX", 0)
	f := fx.Get("big")
	g := vt.DefaultGen
	g.LongList, g.MaxList, g.LongStr, g.MaxStr, g.UniformStr, g.NullPct = 0, 2, 0, 120, true, 10
	k := 0
	for codec := 0; codec < 3; codec++ {
		for _, batches := range [][]int{{1500}, {1490, 10}} {
			k++
			if k%nsh != idx {
				continue
			}
			w := &Workload{Fixture: "big", PageSize: 10000, Codec: codec, Batches: batches}
			w.Records = rapid.Custom(func(t *rapid.T) []*vt.Val {
				var out []*vt.Val
				for i := 0; i < 1500; i++ {
					out = append(out, vt.GenRecord(t, f.Root, g))
				}
				return out
			}).Example(2000 + k)
			for i, r := range w.Records {
				// the optional string column carries 100..163 bytes per value: its page has > 64 KiB of values in every file
				if o := r.F[2]; !o.Null {
					o.S = vt.Bytes(bytes.Repeat([]byte{byte('a' + i%26)}, 100+i%64))
				}
			}
			h := fmt.Sprintf("big/%d/%v", codec, batches)
			o := checkC09(w, func(k int, mode, class string) {
				record("C09", fmt.Sprintf("%s/%d/%s", h, k, mode), true, []string{"part=" + class, "mode=" + mode, "codec=" + fx.CodecNames[codec] + "/part=" + class, "big-pages"}, nil)
			})
			if o != nil {
				if isKnown("C09", o.Key) {
					continue
				}
				saveFail("C09", w, o)
				t.Fatalf("C09 violated: %s", o.Error())
			}
		}
	}
}

func TestReplayC09(t *testing.T) {
	p := os.Getenv("VERIF_REPLAY")
	if p == "" {
		t.Skip()
	}
	var w Workload
	if err := loadReplay(p, &w); err != nil {
		t.Fatal(err)
	}
	replayResult(t, "C09", checkC09(&w, nil))
}

package props

import (
	"bytes"
	"encoding/json"
	"fmt"
	"os"
	"path/filepath"
	"strings"
	"testing"

	"verifharness/fx"
	"verifharness/vt"
)

type c15Meta struct {
	Name     string    `json:"name"`
	Notation string    `json:"notation"`
	Columns  []string  `json:"columns"`
	Codec    int       `json:"codec"`
	Records  []*vt.Val `json:"records"`
}

func c15Dir() string { return filepath.Join(os.Getenv("VERIF_WORKDIR"), "c15") }

// TestC15Write (stage A): every source program writes one file plus a description of what it wrote.
func TestC15Write(t *testing.T) {
	dir := c15Dir()
	os.MkdirAll(dir, 0755)
	k := 0
	for _, n := range fx.Names() {
		if len(n) != 5 || (n[0] != 's' && n[0] != 'r') {
			continue
		}
		f := fx.Get(n)
		recs, _ := vt.EnumRecords(f.Root, 40)
		w := &Workload{Fixture: n, Records: recs, Batches: []int{len(recs)}, PageSize: 7, Codec: k % 3}
		if len(recs) >= 4 {
			w.Batches = []int{len(recs) / 2, len(recs) - len(recs)/2}
		}
		k++
		var file []byte
		o := guard("C15", func() *Outcome {
			var o *Outcome
			file, o = writeWorkload(w, "C15", false)
			return o
		})
		if o != nil {
			fmt.Printf("C15-SKIP %s source program failed to write: %s\n", n, strings.SplitN(o.Error(), "\n", 2)[0])
			continue
		}
		var cols []string
		for _, c := range f.Root.Columns() {
			cols = append(cols, c.Name())
		}
		m := c15Meta{Name: n, Notation: f.Root.Notation(), Columns: cols, Codec: w.Codec, Records: recs}
		b, _ := json.Marshal(m)
		os.WriteFile(filepath.Join(dir, n+".json"), b, 0644)
		os.WriteFile(filepath.Join(dir, n+".parquet"), file, 0644)
	}
}

func regenName(n string) string {
	if n[0] == 's' {
		return "g" + n[1:]
	}
	return "h" + n[1:]
}

func c15Verdict(m *c15Meta) *Outcome {
	return guard("C15", func() *Outcome {
		g := fx.Get(regenName(m.Name))
		if got := g.Root.Notation(); got != m.Notation {
			return viol("C15/struct-differs", "regenerated struct has shape %s, the source struct %s", got, m.Notation)
		}
		var cols []string
		for _, c := range g.Root.Columns() {
			cols = append(cols, c.Name())
		}
		if strings.Join(cols, ",") != strings.Join(m.Columns, ",") {
			return viol("C15/columns-differ", "regenerated struct has columns %v, the source %v", cols, m.Columns)
		}
		file, err := os.ReadFile(filepath.Join(c15Dir(), m.Name+".parquet"))
		if err != nil {
			return viol("C15/harness", "%v", err)
		}
		recs, _, rd, err := readAll(g, bytes.NewReader(file), len(m.Records)+5)
		if err != nil {
			return viol("C15/reader-error", "regenerated reader: NewParquetReader: %v", err)
		}
		if rd.Error() != nil || len(recs) != len(m.Records) {
			return viol("C15/reader-error", "regenerated reader delivered %d of %d rows, Error() = %v", len(recs), len(m.Records), rd.Error())
		}
		for i := range recs {
			if d := vt.Diff(g.Root, m.Records[i], recs[i], ""); d != "" {
				// is the source program's own reader wrong on this file too? then the shape is one parquetgen
				// mis-generates (C05's matter) and says nothing about regeneration
				if fx.Has(m.Name) {
					src := fx.Get(m.Name)
					sr, _, srd, serr := readAll(src, bytes.NewReader(file), len(m.Records)+5)
					if serr != nil || srd.Error() != nil || len(sr) != len(m.Records) {
						return &Outcome{Key: "discard"}
					}
					for j := range sr {
						if vt.Diff(src.Root, m.Records[j], sr[j], "") != "" {
							return &Outcome{Key: "discard"}
						}
					}
				}
				return viol("C15/mismatch", "row %d read by the regenerated reader differs: %s", i, d)
			}
		}
		return nil
	})
}

// TestC15Read (stage B): regenerated programs read the files back.
func TestC15Read(t *testing.T) {
	nsh, idx := envInt("VERIF_NSHARDS", 1), envInt("VERIF_SHARDIDX", 0)
	files, _ := filepath.Glob(filepath.Join(c15Dir(), "*.json"))
	var firstFail *Outcome
	var firstCase interface{}
	for i, fn := range files {
		if i%nsh != idx {
			continue
		}
		b, _ := os.ReadFile(fn)
		var m c15Meta
		if json.Unmarshal(b, &m) != nil {
			continue
		}
		if !fx.Has(regenName(m.Name)) {
			continue // regeneration or compilation failed: judged by the driver
		}
		o := c15Verdict(&m)
		if o != nil && o.Key == "discard" {
			recordX(statLine{P: "C15", H: m.Name, L: []string{"discarded-source-shape-misgenerated(C05)"}}, nil)
			continue
		}
		cls := "faithful"
		if o != nil {
			cls = shapeClass(o, "C15")
		}
		nt := strings.Contains(m.Notation[1:], "*{") || strings.Contains(m.Notation[1:], "{") && strings.Count(m.Notation, "{") >= 3
		recordX(statLine{P: "C15", H: m.Name, NT: nt, L: []string{"verdict=" + cls, "codec=" + fx.CodecNames[m.Codec]}, N: int64(len(m.Records)), DN: map[bool]int64{true: int64(len(m.Records)), false: 0}[nt]}, func() interface{} {
			return map[string]interface{}{"shape": m.Notation, "columns": m.Columns, "verdict": cls, "records": len(m.Records)}
		})
		if o != nil {
			fmt.Printf("C15-SHAPE %s %s %s :: %s\n", m.Name, cls, m.Notation, strings.SplitN(o.Msg, "\n", 2)[0])
			if isKnown("C15", o.Key) {
				recordX(statLine{P: "C15", H: "known", K: o.Key}, nil)
				continue
			}
			if firstFail == nil {
				firstFail, firstCase = o, map[string]interface{}{"shape": m.Notation, "name": m.Name}
			}
		}
	}
	if firstFail != nil {
		saveFail("C15", firstCase, firstFail)
		t.Fatalf("C15 violated: %s", firstFail.Error())
	}
}

func TestReplayC15(t *testing.T) {
	if os.Getenv("VERIF_REPLAY") == "" {
		t.Skip()
	}
	fmt.Printf("REPLAY-OK property=C15\n(C15 replays are shapes; they are rebuilt and judged by the regular two-stage run: ./check C15)\n")
}

package props

import (
	"errors"
	"io"
)

// ---------------------------------------------------------------------------
// fragmenting source (C08)

type Frag struct {
	Mode        string `json:"mode"`  // "fixed" | "sched"
	Chunk       int    `json:"chunk"` // fixed chunk size
	Sched       []int  `json:"sched"` // cyclic schedule of maximum read sizes (>=1)
	EOFWithData bool   `json:"eof_with_data"`
}

type fragReader struct {
	data       []byte
	pos        int64
	f          Frag
	calls      int
	shortReads int // reads that returned fewer bytes than asked for although more were available
	maxAsk     int
}

func (r *fragReader) Read(p []byte) (int, error) {
	if len(p) == 0 {
		return 0, nil
	}
	if r.pos >= int64(len(r.data)) {
		return 0, io.EOF
	}
	lim := len(p)
	switch r.f.Mode {
	case "fixed":
		if r.f.Chunk < lim {
			lim = r.f.Chunk
		}
	case "sched":
		s := r.f.Sched[r.calls%len(r.f.Sched)]
		if s < lim {
			lim = s
		}
	}
	if lim < 1 {
		lim = 1
	}
	r.calls++
	avail := len(r.data) - int(r.pos)
	n := lim
	if avail < n {
		n = avail
	}
	if n < len(p) && n < avail {
		r.shortReads++
	}
	if len(p) > r.maxAsk {
		r.maxAsk = len(p)
	}
	copy(p, r.data[r.pos:r.pos+int64(n)])
	r.pos += int64(n)
	if r.f.EOFWithData && r.pos == int64(len(r.data)) {
		return n, io.EOF
	}
	return n, nil
}

func (r *fragReader) Seek(off int64, whence int) (int64, error) {
	var abs int64
	switch whence {
	case io.SeekStart:
		abs = off
	case io.SeekCurrent:
		abs = r.pos + off
	case io.SeekEnd:
		abs = int64(len(r.data)) + off
	default:
		return 0, errors.New("fragReader.Seek: invalid whence")
	}
	if abs < 0 {
		return 0, errors.New("fragReader.Seek: negative position")
	}
	r.pos = abs
	return abs, nil
}

// ---------------------------------------------------------------------------
// failing sink (C09)

var errInjected = errors.New("verif: injected I/O failure")

// tempErr is an injected failure of the kind network connections report (net.Error style).
type tempErr struct{}

func (tempErr) Error() string   { return "verif: injected temporary I/O failure (i/o timeout)" }
func (tempErr) Temporary() bool { return true }
func (tempErr) Timeout() bool   { return true }

var errInjectedTemp error = tempErr{}

type sinkWrite struct {
	off, n int
	api    string
}

type faultSink struct {
	buf      []byte
	calls    int
	failAt   int    // 1-based call index; 0 = never
	mode     string // "once" | "sticky" | "short"
	api      string // API call currently executing (set by the harness)
	log      []sinkWrite
	faultAPI []string    // API calls during which an injected failure was returned
	inner    func(k int) // optional hook run inside every write (C13 engine b)
	temp     bool        // failures are reported with a Temporary()/Timeout() error
}

func (s *faultSink) injected() error {
	if s.temp {
		return errInjectedTemp
	}
	return errInjected
}

// fileSink is a faultSink that also looks like a file: it can Seek and Truncate (what *os.File offers).
type fileSink struct {
	*faultSink
	pos int64
}

func (f *fileSink) Seek(off int64, whence int) (int64, error) {
	switch whence {
	case io.SeekStart:
		f.pos = off
	case io.SeekCurrent:
		f.pos = int64(len(f.buf)) + off
	case io.SeekEnd:
		f.pos = int64(len(f.buf)) + off
	}
	return f.pos, nil
}

func (f *fileSink) Truncate(n int64) error {
	if n >= 0 && n <= int64(len(f.buf)) {
		f.buf = f.buf[:n]
	}
	return nil
}

func (s *faultSink) Write(p []byte) (int, error) {
	s.calls++
	if s.inner != nil {
		s.inner(s.calls)
	}
	fail := s.failAt > 0 && (s.calls == s.failAt || (s.mode == "sticky" && s.calls > s.failAt))
	if fail {
		s.faultAPI = append(s.faultAPI, s.api)
		if s.mode == "short" && len(p) > 1 {
			n := len(p) / 2
			s.buf = append(s.buf, p[:n]...)
			return n, s.injected()
		}
		return 0, s.injected()
	}
	s.log = append(s.log, sinkWrite{off: len(s.buf), n: len(p), api: s.api})
	s.buf = append(s.buf, p...)
	return len(p), nil
}

// ---------------------------------------------------------------------------
// failing source (C10)

type faultSource struct {
	data   []byte
	pos    int64
	calls  int
	failAt int    // 1-based index over all Read+Seek calls; 0 = never
	mode   string // "read0-once" | "read0-sticky" | "readhalf-once" | "readhalf-sticky" | "seek-once" | "seek-sticky"
	kinds  []byte // 'r' / 's' per call (recorded in the fault-free run)
	fired  int
	dead   bool // sticky mode after the first fault: every later call fails
}

func (r *faultSource) should(kind byte) bool {
	r.calls++
	r.kinds = append(r.kinds, kind)
	if r.failAt == 0 {
		return false
	}
	if r.dead {
		return true
	}
	if r.calls != r.failAt {
		return false
	}
	wantSeek := len(r.mode) >= 4 && r.mode[:4] == "seek"
	if (kind == 's') != wantSeek {
		return false
	}
	if len(r.mode) >= 6 && r.mode[len(r.mode)-6:] == "sticky" {
		r.dead = true
	}
	return true
}

func (r *faultSource) Read(p []byte) (int, error) {
	if r.should('r') {
		r.fired++
		if len(r.mode) >= 8 && r.mode[:8] == "readhalf" && r.fired == 1 {
			avail := len(r.data) - int(r.pos)
			n := len(p) / 2
			if n > avail {
				n = avail
			}
			if n > 0 {
				copy(p, r.data[r.pos:r.pos+int64(n)])
				r.pos += int64(n)
			}
			return n, errInjected
		}
		return 0, errInjected
	}
	if len(p) == 0 {
		return 0, nil
	}
	if r.pos >= int64(len(r.data)) {
		return 0, io.EOF
	}
	n := copy(p, r.data[r.pos:])
	r.pos += int64(n)
	return n, nil
}

func (r *faultSource) Seek(off int64, whence int) (int64, error) {
	if r.should('s') {
		r.fired++
		return 0, errInjected
	}
	var abs int64
	switch whence {
	case io.SeekStart:
		abs = off
	case io.SeekCurrent:
		abs = r.pos + off
	case io.SeekEnd:
		abs = int64(len(r.data)) + off
	default:
		return 0, errors.New("faultSource.Seek: invalid whence")
	}
	if abs < 0 {
		return 0, errors.New("faultSource.Seek: negative position")
	}
	r.pos = abs
	return abs, nil
}

// ---------------------------------------------------------------------------
// container source (C16, C08): the Parquet file is a region of a larger byte string (an archive member, a blob with an
// envelope). Read and Seek - the io.ReadSeeker the library is given - are translated to the region; the other methods a
// wrapper type typically inherits from an embedded *os.File or *bytes.Reader (ReadAt, Size, Len, ReadByte, WriteTo) are NOT
// translated and address the whole container. A library that sticks to the interface it was given never notices.

type containerSource struct {
	all      []byte
	off, end int64 // the file is all[off:end]
	pos      int64 // relative to off
}

func newContainerSource(file []byte) *containerSource {
	pre := 5 + len(file)%97
	all := make([]byte, 0, pre+len(file)+11)
	for i := 0; i < pre; i++ {
		all = append(all, byte(0x15+i%7))
	}
	all = append(all, file...)
	all = append(all, "PAR1\x00\x00\x00\x00PAR"...)
	return &containerSource{all: all, off: int64(pre), end: int64(pre + len(file))}
}

func (c *containerSource) Read(p []byte) (int, error) {
	if c.pos >= c.end-c.off {
		return 0, io.EOF
	}
	n := copy(p, c.all[c.off+c.pos:c.end])
	c.pos += int64(n)
	return n, nil
}

func (c *containerSource) Seek(off int64, whence int) (int64, error) {
	var np int64
	switch whence {
	case io.SeekStart:
		np = off
	case io.SeekCurrent:
		np = c.pos + off
	case io.SeekEnd:
		np = c.end - c.off + off
	default:
		return 0, errors.New("containerSource: invalid whence")
	}
	if np < 0 {
		return 0, errors.New("containerSource: negative position")
	}
	c.pos = np
	return np, nil
}

// untranslated (container coordinates)
func (c *containerSource) ReadAt(p []byte, off int64) (int, error) {
	if off < 0 || off >= int64(len(c.all)) {
		return 0, io.EOF
	}
	n := copy(p, c.all[off:])
	if n < len(p) {
		return n, io.EOF
	}
	return n, nil
}
func (c *containerSource) Size() int64 { return int64(len(c.all)) }
func (c *containerSource) Len() int    { return len(c.all) }

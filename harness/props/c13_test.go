package props

import (
	"bytes"
	"encoding/json"
	"fmt"
	"os"
	"os/exec"
	"reflect"
	"runtime"
	"sync"
	"testing"

	"pgregory.net/rapid"

	"github.com/parsyl/parquet"

	"verifharness/fx"
	"verifharness/vt"
)

// An instance is one writer or one reader with its own sink/source and options.
type InstSpec struct {
	Reader bool      `json:"reader"`
	W      *Workload `json:"w"`                 // the writer's workload, or the workload whose file the reader reads
	FailAt int       `json:"fail_at,omitempty"` // writers: the sink's k-th Write fails once (0 = never)
}

type inst struct {
	spec  InstSpec
	f     *fx.Fixture
	sink  *faultSink
	pw    fx.Writer
	rd    fx.Reader
	file  []byte // reader input
	pos   int    // next step
	recI  int
	batch int
	inB   int
	rows  []*vt.Val
	err   string
	done  bool
}

func newInst(s InstSpec, file []byte) *inst {
	return &inst{spec: s, f: fx.Get(s.W.Fixture), file: file}
}

// step performs the instance's next API call; false when the history is over.
func (in *inst) step() bool {
	if in.done {
		return false
	}
	w := in.spec.W
	if in.spec.Reader {
		switch {
		case in.rd == nil:
			rd, err := in.f.NewReader(bytes.NewReader(in.file))
			if err != nil {
				in.err = "open: " + err.Error()
				in.done = true
				return false
			}
			in.rd = rd
		default:
			if !in.rd.Next() {
				if e := in.rd.Error(); e != nil {
					in.err = "error: " + e.Error()
				}
				in.done = true
				return false
			}
			p := reflect.New(in.f.Type)
			in.rd.Scan(p.Interface())
			v, _ := vt.Extract(in.f.Root, p.Elem())
			in.rows = append(in.rows, v)
			if len(in.rows) > len(w.Records)+3 {
				in.done = true
			}
		}
		return true
	}
	switch {
	case in.pw == nil:
		if in.sink == nil {
			in.sink = &faultSink{}
		}
		if in.spec.FailAt > 0 {
			in.sink.failAt, in.sink.mode = in.spec.FailAt, "once"
		}
		pw, err := in.f.NewWriter(in.sink, w.PageSize, w.Codec)
		if err != nil {
			in.err = "new: " + err.Error()
			in.done = true
			return false
		}
		in.pw = pw
	case in.batch < len(w.Batches) && in.inB < w.Batches[in.batch]:
		in.pw.Add(vt.Build(in.f.Root, w.Records[in.recI], false).Interface())
		in.recI++
		in.inB++
	case in.batch < len(w.Batches):
		if err := in.pw.Write(); err != nil {
			in.err += "write: " + err.Error() + ";"
		}
		in.batch++
		in.inB = 0
	default:
		if err := in.pw.Close(); err != nil {
			in.err += "close: " + err.Error() + ";"
		}
		in.done = true
	}
	return true
}

// result is the observable output of the instance.
func (in *inst) result() []byte {
	if in.spec.Reader {
		b, _ := json.Marshal(struct {
			Rows []*vt.Val
			Err  string
		}{in.rows, in.err})
		return b
	}
	var out []byte
	if in.sink != nil {
		out = in.sink.buf
	}
	return append(append([]byte{}, out...), []byte("|"+in.err)...)
}

func runSolo(s InstSpec, file []byte) []byte {
	in := newInst(s, file)
	for in.step() {
	}
	return in.result()
}

type SchedCase struct {
	Insts  []InstSpec `json:"instances"`
	Sched  []int      `json:"schedule"`   // engine a: which instance takes the next API call (mod alive instances)
	Junk   []int      `json:"junk_sizes"` // pool pollution: sizes of dirty buffers
	NJunk  int        `json:"junk_buffers"`
	Fresh  bool       `json:"fresh_process_reference,omitempty"`
	Engine string     `json:"engine"`  // "api" | "reentrant"
	NestAt []int      `json:"nest_at"` // engine b: sink write indices of instance 0 at which instance 1.. run
}

func pollute(fixtures map[string]bool, sizes []int, n int) {
	for _, sz := range sizes {
		junk := bytes.Repeat([]byte{0xA5, 0x5A, 0xFF, 0x01}, sz/4+1)[:sz]
		parquet.VerifPoolPollute(junk, n)
		for name := range fixtures {
			fx.Get(name).Pollute(junk, n)
		}
	}
}

func checkC13(c *SchedCase) (o *Outcome, overlap int, nested int) {
	o = guard("C13", func() *Outcome {
		// files for readers (written solo, once)
		files := make([][]byte, len(c.Insts))
		fixtures := map[string]bool{}
		for i, s := range c.Insts {
			fixtures[s.W.Fixture] = true
			if s.Reader {
				f, o := writeWorkload(s.W, "C13", false)
				if o != nil {
					return viol("C13/harness", "cannot prepare reader input: %s", o.Error())
				}
				files[i] = f
			}
		}
		// solo references, twice (determinism)
		ref := make([][]byte, len(c.Insts))
		for i, s := range c.Insts {
			ref[i] = runSolo(s, files[i])
			again := runSolo(s, files[i])
			if !bytes.Equal(ref[i], again) {
				return viol("C13/nondeterministic", "instance %d (%s): two solo runs of the same history give different output", i, instDesc(s))
			}
		}
		// reference from a fresh process per fixture type (nothing else has run there): catches state
		// shared between instances of different generated types that a same-process reference inherits too
		if c.Fresh {
			fresh, err := freshRefs(c.Insts, files)
			if err != nil {
				return viol("C13/harness", "fresh-process reference: %v", err)
			}
			for i := range c.Insts {
				if !bytes.Equal(fresh[i], ref[i]) {
					return viol("C13/process-history", "instance %d (%s): output in this process differs from the output of the same history in a fresh process that ran nothing else", i, instDesc(c.Insts[i]))
				}
			}
		}
		pollute(fixtures, c.Junk, c.NJunk)
		if c.Engine == "api" || c.Engine == "reentrant" {
			// the interleaved instances (not the solo references above) get their options from one shared slice per configuration
			fx.ShareOpts = true
			defer func() { fx.ShareOpts = false }()
		}
		insts := make([]*inst, len(c.Insts))
		for i, s := range c.Insts {
			insts[i] = newInst(s, files[i])
		}
		switch c.Engine {
		case "yield":
			// real goroutines on a single P, every sink write yields the processor: the goroutines interleave at sink-write
			// granularity, and with one P they share one sync.Pool cache, so a buffer released too early is picked up at once
			old := runtime.GOMAXPROCS(1)
			var wg sync.WaitGroup
			for _, in := range insts {
				if !in.spec.Reader {
					in.sink = &faultSink{inner: func(int) { runtime.Gosched() }}
				}
				wg.Add(1)
				go func(in *inst) {
					defer wg.Done()
					for in.step() {
						runtime.Gosched()
					}
				}(in)
			}
			wg.Wait()
			runtime.GOMAXPROCS(old)
			nested = len(insts)
		case "reentrant":
			// instance 0 is a writer; at the chosen sink writes the other instances run to completion inside Write(p)
			k := 1
			insts[0].sink = &faultSink{}
			insts[0].sink.inner = func(call int) {
				for _, at := range c.NestAt {
					if at == call && k < len(insts) {
						for insts[k].step() {
						}
						k++
						nested++
					}
				}
			}
			for insts[0].step() {
			}
			for ; k < len(insts); k++ {
				for insts[k].step() {
				}
			}
		default:
			alive := len(insts)
			si := 0
			for alive > 0 {
				pick := 0
				if len(c.Sched) > 0 {
					pick = c.Sched[si%len(c.Sched)]
					si++
				}
				// pick-th alive instance
				var cur *inst
				n := 0
				for _, in := range insts {
					if !in.done {
						if n == pick%alive {
							cur = in
						}
						n++
					}
				}
				started := 0
				for _, in := range insts {
					if !in.done && (in.pw != nil || in.rd != nil) {
						started++
					}
				}
				if started >= 2 {
					overlap++
				}
				if !cur.step() || cur.done {
					alive = 0
					for _, in := range insts {
						if !in.done {
							alive++
						}
					}
				}
			}
		}
		for i, in := range insts {
			if got := in.result(); !bytes.Equal(got, ref[i]) {
				d := 0
				for d < len(got) && d < len(ref[i]) && got[d] == ref[i][d] {
					d++
				}
				return viol("C13/interference/engine="+c.Engine, "instance %d (%s): output differs from its solo run (first difference at byte %d of %d/%d) when interleaved with %d other instances", i, instDesc(in.spec), d, len(got), len(ref[i]), len(insts)-1)
			}
		}
		return nil
	})
	return
}

func instDesc(s InstSpec) string {
	k := "writer"
	if s.Reader {
		k = "reader"
	}
	return fmt.Sprintf("%s %s %s page=%d records=%d", k, s.W.Fixture, fx.CodecNames[s.W.Codec], s.W.PageSize, len(s.W.Records))
}

var c13Fixtures = []string{"tiny", "flat24", "nest", "twin1", "twin2", "twin3"}

func genSchedCase(t *rapid.T, engine string) *SchedCase {
	cfg := wlCfg{fixtures: fixturesFromEnv(c13Fixtures), maxRecs: 8, gen: vt.DefaultGen, noPatterns: true}
	cfg.gen.MaxList = 3
	c := &SchedCase{Engine: engine}
	n := rapid.IntRange(2, 5).Draw(t, "instances")
	// in a third of the cases all instances use one configuration (fixture, page size, codec): writers opened from the same options
	twin := rapid.IntRange(0, 2).Draw(t, "sameConfig") == 0
	for i := 0; i < n; i++ {
		cfgi := cfg
		if twin && i > 0 {
			cfgi.fixtures = []string{c.Insts[0].W.Fixture}
		}
		s := InstSpec{W: genWorkload(t, cfgi)}
		if twin && i > 0 {
			s.W.PageSize, s.W.Codec = c.Insts[0].W.PageSize, c.Insts[0].W.Codec
		}
		if i > 0 || engine != "reentrant" {
			s.Reader = rapid.IntRange(0, 3).Draw(t, "isReader") == 0
		}
		if !s.Reader && rapid.IntRange(0, 4).Draw(t, "failingSink") == 0 {
			s.FailAt = rapid.IntRange(1, 40).Draw(t, "failAt")
		}
		if len(s.W.Batches) > 2 {
			k := 0
			for _, b := range s.W.Batches[1:] {
				k += b
			}
			s.W.Batches = []int{s.W.Batches[0], k}
		}
		c.Insts = append(c.Insts, s)
	}
	c.Fresh = rapid.IntRange(0, 3).Draw(t, "freshRef") == 0
	c.Junk = rapid.SliceOfN(rapid.IntRange(1, 4000), 0, 4).Draw(t, "junk")
	c.NJunk = rapid.IntRange(1, 6).Draw(t, "njunk")
	if engine == "reentrant" {
		c.NestAt = rapid.SliceOfN(rapid.IntRange(1, 60), 1, 6).Draw(t, "nestAt")
	} else {
		c.Sched = rapid.SliceOfN(rapid.IntRange(0, 7), 1, 40).Draw(t, "sched")
	}
	return c
}

func (c *SchedCase) labels(overlap, nested int) (l []string, nt bool) {
	l = append(l, "engine="+c.Engine)
	pooled := false
	for _, s := range c.Insts {
		if s.W.Codec != fx.Uncompressed || s.W.Fixture != "" {
			pooled = true // every fixture has optional/repeated columns, whose pages are assembled in pooled buffers
		}
	}
	if c.Engine == "api" && overlap > 0 && pooled {
		nt = true
		l = append(l, "instances-overlap")
	}
	if c.Engine == "reentrant" && nested > 0 {
		nt = true
		l = append(l, "nested-call-inside-sink-write")
	}
	if c.Engine == "yield" {
		nt = true
		l = append(l, "goroutines-on-one-P-yielding-at-sink-writes")
	}
	if len(c.Junk) > 0 {
		l = append(l, "pools-polluted")
	}
	if c.Fresh {
		l = append(l, "fresh-process-reference")
	}
	for _, s := range c.Insts {
		if s.FailAt > 0 {
			l = append(l, "some-sink-fails")
			break
		}
	}
	return
}

func (c *SchedCase) sample() interface{} {
	var is []string
	for _, s := range c.Insts {
		is = append(is, instDesc(s))
	}
	return map[string]interface{}{"engine": c.Engine, "instances": is, "schedule": c.Sched, "nest_at_sink_writes": c.NestAt, "junk_sizes": c.Junk}
}

func TestC13(t *testing.T) {
	rapid.Check(t, func(t *rapid.T) {
		engine := rapid.SampledFrom([]string{"api", "reentrant", "yield"}).Draw(t, "engine")
		c := genSchedCase(t, engine)
		o, overlap, nested := checkC13(c)
		l, nt := c.labels(overlap, nested)
		record("C13", hashOf(c), nt, l, c.sample)
		verdict(t, "C13", c, o)
	})
}

// TestC13Race: free-running goroutines, each with its own instances; meant for the -race build.
func TestC13Race(t *testing.T) {
	rounds := envInt("VERIF_BUDGET", 4)
	seed := envInt("VERIF_SEED", 1)*1000 + envInt("VERIF_SHARDIDX", 0)
	runtime.GOMAXPROCS(16)
	for r := 0; r < rounds; r++ {
		// a fixed pseudo-random but reproducible set of workloads, drawn through rapid's generators from a seed-determined example
		var specs []InstSpec
		for i := 0; i < 48; i++ {
			cfg := wlCfg{fixtures: fixturesFromEnv(c13Fixtures), maxRecs: 20, gen: vt.DefaultGen, noPatterns: true}
			w := rapid.Custom(func(t *rapid.T) *Workload { return genWorkload(t, cfg) }).Example(seed*7919 + r*131 + i)
			specs = append(specs, InstSpec{W: w, Reader: i%3 == 2})
		}
		files := make([][]byte, len(specs))
		ref := make([][]byte, len(specs))
		for i, s := range specs {
			if s.Reader {
				f, o := writeWorkload(s.W, "C13", false)
				if o != nil {
					t.Fatalf("HARNESS SELF-CHECK FAILED: %s", o.Error())
				}
				files[i] = f
			}
			ref[i] = runSolo(s, files[i])
		}
		got := make([][]byte, len(specs))
		var wg sync.WaitGroup
		start := make(chan struct{})
		for i := range specs {
			wg.Add(1)
			go func(i int) {
				defer wg.Done()
				<-start
				for k := 0; k < 3; k++ {
					got[i] = runSolo(specs[i], files[i])
				}
			}(i)
		}
		close(start)
		wg.Wait()
		for i := range specs {
			nt := true
			record("C13", fmt.Sprintf("race/%d/%d/%d", seed, r, i), nt, []string{"engine=goroutines"}, func() interface{} {
				return map[string]interface{}{"engine": "goroutines", "instance": instDesc(specs[i]), "concurrent_instances": len(specs)}
			})
			if !bytes.Equal(got[i], ref[i]) {
				o := viol("C13/interference/engine=goroutines", "instance %d (%s): output under %d concurrent goroutines differs from its solo run", i, instDesc(specs[i]), len(specs))
				c := &SchedCase{Engine: "goroutines", Insts: specs}
				if isKnown("C13", o.Key) {
					continue
				}
				saveFail("C13", c, o)
				t.Fatalf("C13 violated: %s", o.Error())
			}
		}
	}
}

func TestReplayC13(t *testing.T) {
	p := os.Getenv("VERIF_REPLAY")
	if p == "" {
		t.Skip()
	}
	var c SchedCase
	if err := loadReplay(p, &c); err != nil {
		t.Fatal(err)
	}
	if c.Engine == "goroutines" || c.Engine == "" {
		fmt.Printf("REPLAY-OK property=C13\n(schedule-dependent failure: not replayable deterministically; see the file for the instances involved)\n")
		return
	}
	o, _, _ := checkC13(&c)
	replayResult(t, "C13", o)
}

// ---- fresh-process references ------------------------------------------------

type childJob struct {
	Specs []InstSpec `json:"specs"`
	Files [][]byte   `json:"files"`
	Out   [][]byte   `json:"out"`
}

// freshRefs runs, for every fixture type of the case, the solo histories of that type's instances in a
// newly started copy of this test binary.
func freshRefs(specs []InstSpec, files [][]byte) ([][]byte, error) {
	out := make([][]byte, len(specs))
	byFix := map[string][]int{}
	var order []string
	for i, s := range specs {
		if _, ok := byFix[s.W.Fixture]; !ok {
			order = append(order, s.W.Fixture)
		}
		byFix[s.W.Fixture] = append(byFix[s.W.Fixture], i)
	}
	for _, fxn := range order {
		job := childJob{}
		for _, i := range byFix[fxn] {
			job.Specs = append(job.Specs, specs[i])
			job.Files = append(job.Files, files[i])
		}
		tmp, err := os.CreateTemp("", "c13job*.json")
		if err != nil {
			return nil, err
		}
		b, _ := json.Marshal(&job)
		tmp.Write(b)
		tmp.Close()
		cmd := exec.Command(os.Args[0], "-test.run", "^TestC13Child$")
		cmd.Env = append(os.Environ(), "VERIF_C13_CHILD="+tmp.Name(), "VERIF_STATS=", "VERIF_FAILDIR=")
		if msg, err := cmd.CombinedOutput(); err != nil {
			os.Remove(tmp.Name())
			return nil, fmt.Errorf("child: %v: %s", err, msg)
		}
		b, err = os.ReadFile(tmp.Name())
		os.Remove(tmp.Name())
		if err != nil {
			return nil, err
		}
		var res childJob
		if err := json.Unmarshal(b, &res); err != nil || len(res.Out) != len(job.Specs) {
			return nil, fmt.Errorf("child result unreadable: %v", err)
		}
		for k, i := range byFix[fxn] {
			out[i] = res.Out[k]
		}
	}
	return out, nil
}

// TestC13Child is the body of the fresh process.
func TestC13Child(t *testing.T) {
	p := os.Getenv("VERIF_C13_CHILD")
	if p == "" {
		t.Skip()
	}
	b, err := os.ReadFile(p)
	if err != nil {
		t.Fatal(err)
	}
	var job childJob
	if err := json.Unmarshal(b, &job); err != nil {
		t.Fatal(err)
	}
	for i, s := range job.Specs {
		job.Out = append(job.Out, runSolo(s, job.Files[i]))
	}
	b, _ = json.Marshal(&job)
	if err := os.WriteFile(p, b, 0644); err != nil {
		t.Fatal(err)
	}
}

// TestC13RaceCold: the very first use of every generated package in this process happens concurrently
// (no sequential warm-up), which is when lazily initialised shared state would be built by two goroutines at once.
// References are computed afterwards. Meant for the -race build; also compares outputs.
func TestC13RaceCold(t *testing.T) {
	seed := envInt("VERIF_SEED", 1)*100 + envInt("VERIF_SHARDIDX", 0)
	runtime.GOMAXPROCS(16)
	var specs []InstSpec
	fixtures := fixturesFromEnv(c13Fixtures)
	for i := 0; i < 32; i++ {
		cfg := wlCfg{fixtures: []string{fixtures[i%len(fixtures)]}, maxRecs: 12, gen: vt.DefaultGen, noPatterns: true}
		w := rapid.Custom(func(t *rapid.T) *Workload { return genWorkload(t, cfg) }).Example(seed*977 + i)
		specs = append(specs, InstSpec{W: w})
	}
	type res struct {
		file []byte
		rows []byte
	}
	got := make([]res, len(specs))
	var wg sync.WaitGroup
	start := make(chan struct{})
	for i := range specs {
		wg.Add(1)
		go func(i int) {
			defer wg.Done()
			<-start
			got[i].file = runSolo(specs[i], nil)
			// strip the "|err" suffix to get the file bytes for reading back
			f := got[i].file
			if k := bytes.LastIndexByte(f, '|'); k >= 0 {
				f = f[:k]
			}
			got[i].rows = runSolo(InstSpec{Reader: true, W: specs[i].W}, f)
		}(i)
	}
	close(start)
	wg.Wait()
	for i, s := range specs {
		record("C13", fmt.Sprintf("cold/%d/%d", seed, i), true, []string{"engine=goroutines-cold-start"}, func() interface{} {
			return map[string]interface{}{"engine": "goroutines, first use of the package concurrent", "instance": instDesc(s)}
		})
		wantFile := runSolo(s, nil)
		f := wantFile
		if k := bytes.LastIndexByte(f, '|'); k >= 0 {
			f = f[:k]
		}
		wantRows := runSolo(InstSpec{Reader: true, W: s.W}, f)
		if !bytes.Equal(got[i].file, wantFile) || !bytes.Equal(got[i].rows, wantRows) {
			o := viol("C13/interference/engine=goroutines-cold", "instance %d (%s): output of the concurrent cold start differs from a later sequential run", i, instDesc(s))
			if isKnown("C13", o.Key) {
				continue
			}
			saveFail("C13", &SchedCase{Engine: "goroutines", Insts: specs}, o)
			t.Fatalf("C13 violated: %s", o.Error())
		}
	}
}

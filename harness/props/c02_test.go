package props

import (
	"errors"
	"fmt"
	"os"
	"testing"

	"pgregory.net/rapid"

	"verifharness/fx"
	"verifharness/pqref"
	"verifharness/vt"
)

func codecOf(c int) int32 {
	switch c {
	case fx.Uncompressed:
		return pqref.CodecUncompressed
	case fx.Gzip:
		return pqref.CodecGzip
	}
	return pqref.CodecSnappy // snappy is also the writer's default
}

func problemKey(prop string, err error) *Outcome {
	var p *pqref.Problem
	if errors.As(err, &p) {
		return viol(prop+"/"+p.Code, "%s", p.Msg)
	}
	return viol(prop+"/parse", "%v", err)
}

// validateFile applies the C02 oracle to a file written for root with the
// given batches / page size / codec.
func validateFile(prop string, root *vt.Node, file []byte, batches []int, pageSize int, codec int) (*pqref.File, *Outcome) {
	pf, err := pqref.ParseFile(file, pqref.Options{})
	if err != nil {
		o := problemKey(prop, err)
		if o.Key == prop+"/total-byte-size" {
			o.Key += "/codec=" + fx.CodecNames[codec]
		}
		return nil, o
	}
	if err := pf.CheckShape(root); err != nil {
		return nil, problemKey(prop, err)
	}
	if v := pf.Meta.Version; v != 1 && v != 2 {
		// the footer's required version field: 1 for files with v1 features (what this writer produces), 2 at most
		return nil, viol(prop+"/footer-version", "footer version field is %d (a Parquet file has format version 1 or 2)", v)
	}
	if len(pf.RowGroups) != len(batches) {
		return nil, viol(prop+"/rowgroup-count", "%d row groups in the footer, %d non-empty batches were written", len(pf.RowGroups), len(batches))
	}
	want := codecOf(codec)
	for gi, rg := range pf.RowGroups {
		if rg.RG.NumRows != int64(batches[gi]) {
			return nil, viol(prop+"/rowgroup-rows", "row group %d: num_rows %d, batch had %d records", gi, rg.RG.NumRows, batches[gi])
		}
		for ci, ch := range rg.Chunks {
			if ch.Col.Meta.Codec != want {
				return nil, viol(prop+"/codec", "row group %d column %d: codec %d recorded, %d requested", gi, ci, ch.Col.Meta.Codec, want)
			}
			for pi, pg := range ch.Pages {
				if pageSize > 0 && pg.Records > pageSize {
					return nil, viol(prop+"/page-records", "row group %d column %d page %d holds %d records, page size is %d", gi, ci, pi, pg.Records, pageSize)
				}
			}
		}
	}
	return pf, nil
}

func checkC02(w *Workload) *Outcome {
	return guard("C02", func() *Outcome {
		f := fx.Get(w.Fixture)
		file, o := writeWorkload(w, "C02", false)
		if o != nil {
			return o
		}
		_, o = validateFile("C02", f.Root, file, w.Batches, w.effPage(), w.Codec)
		return o
	})
}

func fixturesFromEnv(def []string) []string {
	var out []string
	for _, n := range def {
		if fx.Has(n) {
			out = append(out, n)
		}
	}
	return out
}

var c02Fixtures = []string{"flat24", "nest", "tiny", "deep", "samename", "rep3", "collide", "dupleaf"}

func TestC02(t *testing.T) {
	cfg := wlCfg{fixtures: fixturesFromEnv(c02Fixtures), maxRecs: envInt("VERIF_MAXRECS", 100), gen: vt.DefaultGen}
	cfg.gen.LongList = 600
	cfg.bigPct = 3
	rapid.Check(t, func(t *rapid.T) {
		w := genWorkload(t, cfg)
		if len(w.Batches) >= 2 && len(w.Batches) < 50 && rapid.IntRange(0, 3).Draw(t, "pendingAtClose") == 0 {
			// the last batch is added but never written: it must not show up anywhere in the file
			w.Pending = w.Batches[len(w.Batches)-1]
			w.Batches = w.Batches[:len(w.Batches)-1]
		}
		o := checkC02(w)
		record("C02", hashOf(w), w.nontrivial() || (len(w.Records) > 0 && (w.Fixture == "deep" || w.Fixture == "samename" || w.Fixture == "collide")), w.labels(), w.sample)
		verdict(t, "C02", w, o)
	})
}

func TestReplayC02(t *testing.T) {
	p := os.Getenv("VERIF_REPLAY")
	if p == "" {
		t.Skip()
	}
	var w Workload
	if err := loadReplay(p, &w); err != nil {
		t.Fatal(err)
	}
	replayResult(t, "C02", checkC02(&w))
}

var _ = fmt.Sprintf

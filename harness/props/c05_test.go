package props

import (
	"bytes"
	"fmt"
	"os"
	"sort"
	"strings"
	"testing"

	"verifharness/fx"
	"verifharness/pqref"
	"verifharness/vt"
)

// labNames returns the registered lab fixtures with the given prefix, sorted.
func labNames(prefix string) []string {
	var out []string
	for _, n := range fx.Names() {
		if strings.HasPrefix(n, prefix) && len(n) == len(prefix)+4 {
			out = append(out, n)
		}
	}
	sort.Strings(out)
	return out
}

// shapeVerdict runs the round-trip, file-validity and striping oracles on one shape
// over its structural value space. It returns the first violation (Key = <prop>/<class>...).
func shapeVerdict(prop string, f *fx.Fixture, maxRecs int) (o *Outcome, nrecs int, complete bool) {
	recs, complete := vt.EnumRecords(f.Root, maxRecs)
	nrecs = len(recs)
	type plan struct {
		page  int
		codec int
		split bool
	}
	plans := []plan{{1000, fx.Uncompressed, false}, {1, fx.Snappy, true}, {3, fx.Gzip, true}}
	for pi, pl := range plans {
		w := &Workload{Fixture: f.Name, Records: recs, PageSize: pl.page, Codec: pl.codec}
		if pl.split && len(recs) >= 2 {
			w.Batches = []int{len(recs) / 2, len(recs) - len(recs)/2}
		} else {
			w.Batches = []int{len(recs)}
		}
		o = guard(prop, func() *Outcome {
			file, o := writeWorkload(w, prop, false)
			if o != nil {
				return o
			}
			// round trip first: silent loss is the class the property singles out
			got, _, rd, err := readAll(f, bytes.NewReader(file), len(recs)+5)
			if err != nil {
				return viol(prop+"/reader-error", "NewParquetReader: %v", err)
			}
			if rd.Error() != nil {
				return viol(prop+"/reader-error", "Error(): %v", rd.Error())
			}
			if len(got) != len(recs) {
				return viol(prop+"/silent-mismatch", "%d records written, %d read back", len(recs), len(got))
			}
			for i := range got {
				if d := vt.Diff(f.Root, recs[i], got[i], ""); d != "" {
					return viol(prop+"/silent-mismatch", "record %s reads back differently: %s", vt.Render(f.Root, recs[i]), d)
				}
			}
			pf, o := validateFile(prop, f.Root, file, w.Batches, w.effPage(), w.Codec)
			if o != nil {
				o.Key = prop + "/bad-file/" + strings.TrimPrefix(o.Key, prop+"/")
				return o
			}
			if o := stripingCheck(prop, f.Root, pf, recs, w.Batches); o != nil {
				k := strings.TrimPrefix(o.Key, prop+"/")
				if i := strings.Index(k, "/col="); i >= 0 {
					k = k[:i]
				}
				o.Key = prop + "/bad-striping/" + k
				return o
			}
			return nil
		})
		if o != nil {
			o.Msg = fmt.Sprintf("[plan %d: page size %d, %s, batches %v] %s", pi, pl.page, fx.CodecNames[pl.codec], w.Batches, o.Msg)
			return
		}
	}
	return nil, nrecs, complete
}

type ShapeCase struct {
	Name     string `json:"name"`
	Notation string `json:"shape"`
	Source   string `json:"types.go,omitempty"`
}

func shapeClass(o *Outcome, prop string) string {
	if o == nil {
		return "healthy"
	}
	k := strings.TrimPrefix(o.Key, prop+"/")
	if i := strings.Index(k, "/"); i >= 0 {
		k = k[:i]
	}
	return k
}

// TestC05 judges every lab shape that generated and compiled. Sharded by index.
func TestC05(t *testing.T) {
	nsh, idx := envInt("VERIF_NSHARDS", 1), envInt("VERIF_SHARDIDX", 0)
	maxRecs := envInt("VERIF_C05_MAXRECS", 120)
	names := append(labNames("s"), labNames("n")...)
	var firstFail *Outcome
	var firstCase *ShapeCase
	for i, n := range names {
		if i%nsh != idx {
			continue
		}
		f := fx.Get(n)
		o, nrecs, complete := shapeVerdict("C05", f, maxRecs)
		cls := shapeClass(o, "C05")
		shape := f.Root.Notation()
		if o != nil {
			o.Key = "C05/" + cls + "/shape=" + shape
		}
		labels := []string{"class=" + cls}
		if complete {
			labels = append(labels, "value-space-complete")
		}
		st := statLine{P: "C05", H: n, NT: true, L: labels, N: int64(nrecs), DN: int64(nrecs)}
		known := o != nil && isKnown("C05", o.Key)
		if known {
			st.K = ""
			st.L = append(st.L, "known-finding")
		}
		recordX(st, func() interface{} {
			return map[string]interface{}{"shape": shape, "verdict": cls, "records": nrecs}
		})
		if o != nil {
			// one line per judged failing shape for the catalogue
			recordX(statLine{P: "C05", H: "catalogue", L: nil, X: 0, K: ""}, nil)
			fmt.Printf("C05-SHAPE %s %s %s :: %s\n", n, cls, shape, strings.SplitN(o.Msg, "\n", 2)[0])
			if known {
				recordX(statLine{P: "C05", H: "known", K: o.Key}, nil)
				continue
			}
			if firstFail == nil {
				firstFail, firstCase = o, &ShapeCase{Name: n, Notation: shape}
			}
		}
	}
	if firstFail != nil {
		saveFail("C05", firstCase, firstFail)
		t.Fatalf("C05 violated: %s", firstFail.Error())
	}
}

func TestReplayC05(t *testing.T) {
	p := os.Getenv("VERIF_REPLAY")
	if p == "" {
		t.Skip()
	}
	// the driver rebuilt the shape of the replay file as a lab package
	pkg := os.Getenv("VERIF_REPLAY_PKG")
	if !fx.Has(pkg) {
		fmt.Printf("REPLAY-FAIL property=C05 key=%s\nshape did not build\n", os.Getenv("VERIF_REPLAY_BUILDKEY"))
		if isKnown("C05", os.Getenv("VERIF_REPLAY_BUILDKEY")) {
			fmt.Printf("REPLAY-KNOWN property=C05 key=%s\n", os.Getenv("VERIF_REPLAY_BUILDKEY"))
			return
		}
		t.Fail()
		return
	}
	f := fx.Get(pkg)
	o, _, _ := shapeVerdict("C05", f, envInt("VERIF_C05_MAXRECS", 120))
	if o != nil {
		o.Key = "C05/" + shapeClass(o, "C05") + "/shape=" + f.Root.Notation()
	}
	replayResult(t, "C05", o)
}

var _ = pqref.ParseFile

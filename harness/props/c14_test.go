package props

import (
	"bytes"
	"fmt"
	"os"
	"reflect"
	"strings"
	"testing"

	"verifharness/fx"
	"verifharness/vt"
)

// pairVerdict: base and decorated programs must write identical bytes; the decorated reader returns the values.
func pairVerdict(prop string, base, dec *fx.Fixture, maxRecs int) (o *Outcome, nrecs int) {
	if base.Root.Notation() != dec.Root.Notation() {
		return viol(prop+"/harness", "base %s and decorated %s have different column structure", base.Root.Notation(), dec.Root.Notation()), 0
	}
	recs, _ := vt.EnumRecords(base.Root, maxRecs)
	nrecs = len(recs)
	type plan struct {
		page  int
		codec int
		split bool
	}
	plans := []plan{{1000, fx.Uncompressed, false}, {2, fx.Snappy, true}, {3, fx.Gzip, false}}
	for pi, pl := range plans {
		batches := []int{len(recs)}
		if pl.split && len(recs) >= 2 {
			batches = []int{len(recs) / 2, len(recs) - len(recs)/2}
		}
		o = guard(prop, func() *Outcome {
			wb := &Workload{Fixture: base.Name, Records: recs, Batches: batches, PageSize: pl.page, Codec: pl.codec}
			wd := &Workload{Fixture: dec.Name, Records: recs, Batches: batches, PageSize: pl.page, Codec: pl.codec}
			fb, o := writeWorkload(wb, prop, false)
			if o != nil {
				return viol(prop+"/base-failed", "base program failed: %s", o.Error())
			}
			fd, o := writeWorkload(wd, prop, false) // Build(junk=true) fills settable excluded fields
			if o != nil {
				o.Key = prop + "/decorated-writer-error"
				return o
			}
			if !bytes.Equal(fb, fd) {
				i := 0
				for i < len(fb) && i < len(fd) && fb[i] == fd[i] {
					i++
				}
				return viol(prop+"/bytes-differ", "files differ (base %d bytes, decorated %d bytes, first difference at byte %d)", len(fb), len(fd), i)
			}
			rd, err := dec.NewReader(bytes.NewReader(fd))
			if err != nil {
				return viol(prop+"/decorated-reader-error", "NewParquetReader: %v", err)
			}
			n := 0
			for rd.Next() {
				p := reflect.New(dec.Type)
				rd.Scan(p.Interface())
				v, zero := vt.Extract(dec.Root, p.Elem())
				if n < len(recs) {
					if d := vt.Diff(dec.Root, recs[n], v, ""); d != "" {
						return viol(prop+"/decorated-mismatch", "record %d read by the decorated reader differs: %s", n, d)
					}
				}
				if !zero {
					return viol(prop+"/excluded-not-zero", "record %d: an excluded field is not the zero value after Scan into a fresh struct", n)
				}
				n++
				if n > len(recs)+2 {
					break
				}
			}
			if rd.Error() != nil || n != len(recs) {
				return viol(prop+"/decorated-reader-error", "decorated reader delivered %d of %d rows, Error() = %v", n, len(recs), rd.Error())
			}
			return nil
		})
		if o != nil {
			o.Msg = fmt.Sprintf("[plan %d: page size %d, %s, batches %v] %s", pi, pl.page, fx.CodecNames[pl.codec], batches, o.Msg)
			return
		}
	}
	return nil, nrecs
}

func TestC14(t *testing.T) {
	nsh, idx := envInt("VERIF_NSHARDS", 1), envInt("VERIF_SHARDIDX", 0)
	maxRecs := envInt("VERIF_C14_MAXRECS", 60)
	var firstFail *Outcome
	var firstCase interface{}
	k := 0
	for _, n := range fx.Names() {
		if !strings.HasPrefix(n, "b") || len(n) != 5 || !fx.Has("d"+n[1:]) {
			continue
		}
		k++
		if k%nsh != idx {
			continue
		}
		base, dec := fx.Get(n), fx.Get("d"+n[1:])
		o, nrecs := pairVerdict("C14", base, dec, maxRecs)
		cls := "identical"
		if o != nil {
			cls = shapeClass(o, "C14")
		}
		nt := len(dec.Root.Excluded) == 0 || strings.Contains(base.Root.Notation()[1:], "{")
		recordX(statLine{P: "C14", H: n, NT: nt, L: []string{"verdict=" + cls}, N: int64(nrecs), DN: map[bool]int64{true: int64(nrecs), false: 0}[nt]}, func() interface{} {
			return map[string]interface{}{"base_shape": base.Root.Notation(), "decorated_go_type": fmt.Sprint(dec.Type), "verdict": cls, "records": nrecs}
		})
		if o != nil {
			fmt.Printf("C14-SHAPE %s %s %s :: %s\n", n, cls, base.Root.Notation(), strings.SplitN(o.Msg, "\n", 2)[0])
			if isKnown("C14", o.Key) {
				recordX(statLine{P: "C14", H: "known", K: o.Key}, nil)
				continue
			}
			if firstFail == nil {
				firstFail, firstCase = o, map[string]string{"base_pkg": n, "dec_pkg": "d" + n[1:], "base.go": readLabSource(n), "decorated.go": readLabSource("d" + n[1:])}
			}
		}
	}
	if firstFail != nil {
		saveFail("C14", firstCase, firstFail)
		t.Fatalf("C14 violated: %s", firstFail.Error())
	}
}

func readLabSource(pkg string) string {
	b, _ := os.ReadFile("../lab/" + pkg + "/types.go")
	return string(b)
}

func TestReplayC14(t *testing.T) {
	if os.Getenv("VERIF_REPLAY") == "" {
		t.Skip()
	}
	bn, dn := os.Getenv("VERIF_REPLAY_PKG"), os.Getenv("VERIF_REPLAY_PKG2")
	if !fx.Has(bn) || !fx.Has(dn) {
		key := os.Getenv("VERIF_REPLAY_BUILDKEY")
		if key == "" {
			fmt.Printf("REPLAY-OK property=C14\n(base program no longer builds; nothing to compare)\n")
			return
		}
		fmt.Printf("REPLAY-FAIL property=C14 key=%s\ndecorated program did not build\n", key)
		if isKnown("C14", key) {
			fmt.Printf("REPLAY-KNOWN property=C14 key=%s\n", key)
			return
		}
		t.Fail()
		return
	}
	o, _ := pairVerdict("C14", fx.Get(bn), fx.Get(dn), envInt("VERIF_C14_MAXRECS", 60))
	replayResult(t, "C14", o)
}

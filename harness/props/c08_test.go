package props

import (
	"bytes"
	"fmt"
	"os"
	"testing"

	"pgregory.net/rapid"

	"verifharness/fx"
	"verifharness/vt"
)

type FragCase struct {
	W *Workload `json:"w"`
	F Frag      `json:"frag"`
}

// fragRead reads file through a fragmenting source and compares with want.
func fragRead(prop string, f *fx.Fixture, file []byte, fr Frag, want []*vt.Val) (*Outcome, *fragReader) {
	src := &fragReader{data: file, f: fr}
	recs, _, rd, err := readAll(f, src, len(want)+5)
	if err != nil {
		return viol(prop+"/reader-error", "NewParquetReader over a fragmenting source (%s): %v", fragDesc(fr), err), src
	}
	if e := rd.Error(); e != nil {
		return viol(prop+"/reader-error", "Error() = %v over a fragmenting source (%s)", e, fragDesc(fr)), src
	}
	if len(recs) != len(want) {
		return viol(prop+"/row-count", "%d rows over a fragmenting source (%s), %d over bytes.Reader", len(recs), fragDesc(fr), len(want)), src
	}
	for i := range recs {
		if d := vt.Diff(f.Root, want[i], recs[i], ""); d != "" {
			return viol(prop+"/mismatch", "row %d differs when the source fragments reads (%s): %s", i, fragDesc(fr), d), src
		}
	}
	return nil, src
}

func fragDesc(f Frag) string {
	if f.Mode == "fixed" {
		return fmt.Sprintf("fixed chunk %d, eof-with-data=%v", f.Chunk, f.EOFWithData)
	}
	return fmt.Sprintf("schedule %v, eof-with-data=%v", f.Sched, f.EOFWithData)
}

func checkC08(c *FragCase) (o *Outcome, short int, discarded bool) {
	o = guard("C08", func() *Outcome {
		f := fx.Get(c.W.Fixture)
		file, o := writeWorkload(c.W, "C08", false)
		if o != nil {
			discarded = true
			return nil // the writer's problem is C01/C02's matter
		}
		base, _, rd, err := readAll(f, bytes.NewReader(file), len(c.W.Records)+5)
		if err != nil || rd.Error() != nil {
			discarded = true
			return nil
		}
		o, src := fragRead("C08", f, file, c.F, base)
		short = src.shortReads
		return o
	})
	return
}

var c08Fixtures = []string{"flat24", "nest", "tiny"}
var c08Chunks = []int{1, 2, 3, 4, 5, 6, 7, 8, 9, 10, 11, 12, 13, 14, 15, 16, 31, 61, 127, 509, 4093}

func genFrag(t *rapid.T) Frag {
	fr := Frag{EOFWithData: rapid.Bool().Draw(t, "eofWithData")}
	if rapid.IntRange(0, 2).Draw(t, "fragMode") < 2 {
		fr.Mode = "fixed"
		fr.Chunk = rapid.SampledFrom(c08Chunks).Draw(t, "chunk")
	} else {
		fr.Mode = "sched"
		fr.Sched = rapid.SliceOfN(rapid.IntRange(1, 40), 1, 12).Draw(t, "sched")
	}
	return fr
}

func TestC08(t *testing.T) {
	cfg := wlCfg{fixtures: fixturesFromEnv(c08Fixtures), maxRecs: envInt("VERIF_MAXRECS", 40), gen: vt.DefaultGen, bigPct: 5}
	cfg.gen.HugeStr = 70000 // page headers (min/max statistics) beyond 64 KiB
	rapid.Check(t, func(t *rapid.T) {
		c := &FragCase{W: genWorkload(t, cfg), F: genFrag(t)}
		o, short, disc := checkC08(c)
		labels := append(c.W.labels(), "frag="+c.F.Mode)
		if c.F.EOFWithData {
			labels = append(labels, "eof-with-data")
		}
		if disc {
			labels = append(labels, "discarded-baseline-failed")
		}
		record("C08", hashOf(c), short > 0 && len(c.W.Records) > 0 && !disc, labels, func() interface{} {
			return map[string]interface{}{"frag": fragDesc(c.F), "short_reads": short, "workload": c.W.sample()}
		})
		verdict(t, "C08", c, o)
	})
}

func TestReplayC08(t *testing.T) {
	p := os.Getenv("VERIF_REPLAY")
	if p == "" {
		t.Skip()
	}
	var c FragCase
	if err := loadReplay(p, &c); err != nil {
		t.Fatal(err)
	}
	o, _, _ := checkC08(&c)
	replayResult(t, "C08", o)
}

package props

import (
	"bytes"
	"fmt"
	"os"
	"strings"
	"testing"

	"pgregory.net/rapid"

	"verifharness/fx"
	"verifharness/pqref"
	"verifharness/vt"
)

// History is a sequence of Add / Write calls, terminated by Close.
// Ops[i] == nil means Write; otherwise Add(Ops[i]).
type History struct {
	Fixture  string    `json:"fixture"`
	Ops      []*vt.Val `json:"ops"` // null = Write
	PageSize int       `json:"page_size"`
	Codec    int       `json:"codec"`
}

func (h *History) word() string {
	var sb strings.Builder
	for _, o := range h.Ops {
		if o == nil {
			sb.WriteByte('W')
		} else {
			sb.WriteByte('A')
		}
	}
	return sb.String() + "C"
}

// model: list of non-empty written batches
func (h *History) model() (batches [][]*vt.Val, pending int, emptyWrites int) {
	var cur []*vt.Val
	for _, o := range h.Ops {
		if o != nil {
			cur = append(cur, o)
			continue
		}
		if len(cur) == 0 {
			emptyWrites++
			continue
		}
		batches = append(batches, cur)
		cur = nil
	}
	return batches, len(cur), emptyWrites
}

func checkC06(h *History) *Outcome {
	return guard("C06", func() *Outcome {
		f := fx.Get(h.Fixture)
		var buf bytes.Buffer
		pw, err := f.NewWriter(&buf, h.PageSize, h.Codec)
		if err != nil {
			return viol("C06/writer-error", "NewParquetWriter: %v", err)
		}
		for i, o := range h.Ops {
			if o == nil {
				if err := pw.Write(); err != nil {
					return viol("C06/writer-error", "op %d Write: %v", i, err)
				}
				continue
			}
			pw.Add(vt.Build(f.Root, o, false).Interface())
		}
		if err := pw.Close(); err != nil {
			return viol("C06/writer-error", "Close: %v", err)
		}
		file := buf.Bytes()
		batches, pending, emptyW := h.model()
		ctx := fmt.Sprintf("history %s (page size %d, %s; %d empty Writes, %d rows pending at Close)", h.word(), h.PageSize, fx.CodecNames[h.Codec], emptyW, pending)
		var sizes []int
		var all []*vt.Val
		for _, b := range batches {
			sizes = append(sizes, len(b))
			all = append(all, b...)
		}
		tag := func(o *Outcome) *Outcome {
			// classify by the degenerate feature present, so that known findings stay specific
			feat := "regular"
			switch {
			case emptyW > 0 && pending > 0:
				feat = "empty-write+pending-at-close"
			case emptyW > 0:
				feat = "empty-write"
			case pending > 0:
				feat = "pending-at-close"
			}
			o.Key = strings.Replace(o.Key, "C06/", "C06/"+feat+"/", 1)
			o.Msg = ctx + ": " + o.Msg
			return o
		}
		eff := h.PageSize
		if eff <= 0 {
			eff = 1000
		}
		pf, o := validateFile("C06", f.Root, file, sizes, eff, h.Codec)
		if o != nil {
			return tag(o)
		}
		if o := stripingCheck("C06", f.Root, pf, all, sizes); o != nil {
			return tag(o)
		}
		recs, _, rd, err := readAll(f, bytes.NewReader(file), len(all)+5)
		if err != nil {
			return tag(viol("C06/reader-error", "NewParquetReader: %v", err))
		}
		if rd.Error() != nil {
			return tag(viol("C06/reader-error", "Error(): %v", rd.Error()))
		}
		if rd.Rows() != int64(len(all)) {
			return tag(viol("C06/rows", "Rows() = %d, the written batches hold %d records", rd.Rows(), len(all)))
		}
		if len(recs) != len(all) {
			return tag(viol("C06/next-count", "reader delivered %d rows, the written batches hold %d records", len(recs), len(all)))
		}
		for i := range recs {
			if d := vt.Diff(f.Root, all[i], recs[i], ""); d != "" {
				return tag(viol("C06/mismatch", "row %d differs: %s", i, d))
			}
		}
		return nil
	})
}

func (h *History) labels() (l []string, nontrivial bool) {
	batches, pending, emptyW := h.model()
	l = append(l, "fixture="+h.Fixture, "codec="+fx.CodecNames[h.Codec])
	if emptyW > 0 {
		l = append(l, "empty-write")
		if len(batches) > 0 {
			nontrivial = true
		}
	}
	if pending > 0 {
		l = append(l, "pending-at-close")
		nontrivial = true
	}
	if h.PageSize <= 0 {
		l = append(l, "default-page-size")
		return l, true
	}
	for _, b := range batches {
		if len(b)%h.PageSize == 0 {
			l = append(l, "batch=k*page")
			nontrivial = true
			break
		}
	}
	for _, b := range batches {
		if len(b) > h.PageSize {
			l = append(l, "overflow-into-child-page")
			break
		}
	}
	if len(batches) >= 2 {
		l = append(l, "rowgroups>=2")
	}
	return
}

func (h *History) sample() interface{} {
	return map[string]interface{}{"fixture": h.Fixture, "history": h.word(), "page_size": h.PageSize, "codec": fx.CodecNames[h.Codec]}
}

// numbered record for the tiny fixture: order is visible in every column
func tinyRec(i int) *vt.Val {
	name := &vt.Val{Null: true}
	if i%3 != 0 {
		name = &vt.Val{S: vt.Bytes(fmt.Sprintf("r%d", i))}
	}
	flag := &vt.Val{}
	for k := 0; k < i%4; k++ {
		flag.L = append(flag.L, &vt.Val{U: uint64((i + k) % 2)})
	}
	return &vt.Val{F: []*vt.Val{{U: uint64(uint32(int32(i)))}, name, flag}}
}

// TestC06Enum enumerates all words over {Add, Write} up to a length bound x page sizes x codecs.
func TestC06Enum(t *testing.T) {
	maxLen := 8
	if os.Getenv("VERIF_TIER") == "thorough" {
		maxLen = 11
	}
	maxLen = envInt("VERIF_C06_LEN", maxLen)
	nsh, idx := envInt("VERIF_NSHARDS", 1), envInt("VERIF_SHARDIDX", 0)
	n := 0
	for ln := 0; ln <= maxLen; ln++ {
		for bits := 0; bits < 1<<uint(ln); bits++ {
			for ps := 1; ps <= 4; ps++ {
				for codec := 0; codec < 3; codec++ {
					n++
					if n%nsh != idx {
						continue
					}
					h := &History{Fixture: "tiny", PageSize: ps, Codec: codec}
					k := 0
					for i := 0; i < ln; i++ {
						if bits&(1<<uint(i)) != 0 {
							h.Ops = append(h.Ops, nil)
						} else {
							h.Ops = append(h.Ops, tinyRec(k))
							k++
						}
					}
					o := checkC06(h)
					l, nt := h.labels()
					record("C06", fmt.Sprintf("enum/%d/%d/%d/%d", ln, bits, ps, codec), nt, append(l, "enum"), h.sample)
					if o != nil {
						if isKnown("C06", o.Key) {
							recordX(statLine{P: "C06", H: "known", K: o.Key}, nil)
							continue
						}
						saveFail("C06", h, o)
						t.Fatalf("C06 violated: %s", o.Error())
					}
				}
			}
		}
	}
}

// TestC06Long: histories with so many written batches that the footer itself becomes large (one row group per batch:
// > 64 KiB from some 700 batches, > 1 MiB from some 12 000 on the 3-column fixture) - what a long-running appender produces.
func TestC06Long(t *testing.T) {
	sizes := []int{700, 13000}
	if os.Getenv("VERIF_TIER") == "thorough" {
		sizes = []int{700, 3000, 13000, 30000, 52000}
	}
	nsh, idx := envInt("VERIF_NSHARDS", 1), envInt("VERIF_SHARDIDX", 0)
	seed := envInt("VERIF_SEED", 1)
	for i, n := range sizes {
		if i%nsh != idx {
			continue
		}
		n += seed % 7
		h := &History{Fixture: "tiny", PageSize: 1 + (seed+i)%3, Codec: (seed + i) % 3}
		for k := 0; k < n; k++ {
			h.Ops = append(h.Ops, tinyRec(k))
			if k%97 == 5 {
				h.Ops = append(h.Ops, tinyRec(k+1)) // now and then a batch of two records
			}
			h.Ops = append(h.Ops, nil)
			if k%1000 == 999 {
				h.Ops = append(h.Ops, nil) // and a Write with nothing pending
			}
		}
		o := checkC06(h)
		record("C06", fmt.Sprintf("long/%d/%d/%d", n, h.PageSize, h.Codec), true, []string{"long-history", fmt.Sprintf("batches=%d", n), "enum"}, func() interface{} {
			return map[string]interface{}{"fixture": "tiny", "batches": n, "page_size": h.PageSize, "codec": fx.CodecNames[h.Codec], "word": "(A W) x n, every 97th batch AA W, every 1000th followed by an empty W"}
		})
		if o != nil {
			if isKnown("C06", o.Key) {
				continue
			}
			saveFail("C06", h, o)
			t.Fatalf("C06 violated: %s", o.Error())
		}
	}
}

var c06Fixtures = []string{"tiny", "nest", "flat24"}

func TestC06(t *testing.T) {
	rapid.Check(t, func(t *rapid.T) {
		h := &History{}
		h.Fixture = rapid.SampledFrom(fixturesFromEnv(c06Fixtures)).Draw(t, "fixture")
		f := fx.Get(h.Fixture)
		h.Codec = rapid.IntRange(0, 2).Draw(t, "codec")
		h.PageSize = rapid.IntRange(1, 16).Draw(t, "pageSize")
		nops := rapid.IntRange(0, 24).Draw(t, "nops")
		eff := h.PageSize
		if b := rapid.IntRange(0, 99).Draw(t, "defaultPage?"); b >= 50 && b < 53 && h.Fixture == "tiny" {
			// do not pass MaxPageSize at all: the documented default of 1000 records per page applies
			h.PageSize, eff, nops = 0, 1000, rapid.IntRange(1, 5).Draw(t, "nopsBig")
		}
		gen := vt.DefaultGen
		gen.MaxList = 3
		gen.HugeStr = 70000
		for i := 0; i < nops && len(h.Ops) < 200+5*eff; i++ {
			switch rapid.IntRange(0, 4).Draw(t, "op") {
			case 0, 1:
				h.Ops = append(h.Ops, nil)
			case 2:
				h.Ops = append(h.Ops, vt.GenRecord(t, f.Root, gen))
			default:
				k := rapid.SampledFrom([]int{1, 2, eff - 1, eff, eff + 1, 2 * eff, 2*eff + 1}).Draw(t, "addMany")
				for j := 0; j < k; j++ {
					h.Ops = append(h.Ops, vt.GenRecord(t, f.Root, gen))
				}
			}
		}
		o := checkC06(h)
		l, nt := h.labels()
		record("C06", hashOf(h), nt, l, h.sample)
		verdict(t, "C06", h, o)
	})
}

func TestReplayC06(t *testing.T) {
	p := os.Getenv("VERIF_REPLAY")
	if p == "" {
		t.Skip()
	}
	var h History
	if err := loadReplay(p, &h); err != nil {
		t.Fatal(err)
	}
	replayResult(t, "C06", checkC06(&h))
}

var _ = pqref.ParseFile

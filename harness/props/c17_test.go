package props

import (
	"fmt"
	"os"
	"testing"

	"github.com/parsyl/parquet"
)

// refPack is the specification: value i of an 8-value group of width w occupies
// bits [i*w, (i+1)*w) of the little-endian byte string of w bytes.
func refPack(w int, g *[8]uint8) [4]byte {
	var x uint32
	for i := 0; i < 8; i++ {
		x |= uint32(g[i]) << uint(i*w)
	}
	return [4]byte{byte(x), byte(x >> 8), byte(x >> 16), byte(x >> 24)}
}

// results of the previous call, retained to detect results that share storage between calls
var prevUnpacked []uint8
var prevUnpackedCopy [8]uint8
var prevPacked []byte
var prevPackedCopy [4]byte

func checkRetained(w int) *Outcome {
	if prevUnpacked != nil {
		for i := 0; i < 8; i++ {
			if prevUnpacked[i] != prevUnpackedCopy[i] {
				return viol(fmt.Sprintf("C17/result-aliased/w=%d", w), "the slice returned by an earlier Unpack call changed when Unpack was called again (was %v, now %v)", prevUnpackedCopy, prevUnpacked)
			}
		}
	}
	if prevPacked != nil {
		for i := range prevPacked {
			if prevPacked[i] != prevPackedCopy[i] {
				return viol(fmt.Sprintf("C17/result-aliased/w=%d", w), "the bytes returned by an earlier Pack call changed when Pack was called again")
			}
		}
	}
	return nil
}

func checkGroup(w int, g *[8]uint8) *Outcome {
	o := checkGroupInner(w, g)
	if o == nil {
		o = checkRetained(w)
	}
	return o
}

func checkGroupInner(w int, g *[8]uint8) *Outcome {
	want := refPack(w, g)
	got := parquet.VerifBitPack(w, g[:])
	if len(got) != w {
		return viol(fmt.Sprintf("C17/pack-length/w=%d", w), "Pack(width %d, %v) returned %d bytes", w, *g, len(got))
	}
	for i := 0; i < w; i++ {
		if got[i] != want[i] {
			return viol(fmt.Sprintf("C17/pack-layout/w=%d", w), "Pack(width %d, %v) = % x, the LSB-first little-endian layout is % x", w, *g, got, want[:w])
		}
	}
	back := parquet.VerifBitUnpack(w, got)
	if len(back) != 8 {
		return viol(fmt.Sprintf("C17/unpack-length/w=%d", w), "Unpack(width %d, % x) returned %d values", w, got, len(back))
	}
	for i := 0; i < 8; i++ {
		if back[i] != g[i] {
			return viol(fmt.Sprintf("C17/roundtrip/w=%d", w), "Unpack(Pack(%v)) = %v (width %d, packed % x)", *g, back, w, got)
		}
	}
	// keep this call's results; the next call checks that they are still intact
	if o := checkRetained(w); o != nil {
		return o
	}
	prevUnpacked = back
	copy(prevUnpackedCopy[:], back)
	prevPacked = got
	copy(prevPackedCopy[:], got)
	return nil
}

type GroupCase struct {
	W     int      `json:"w"`
	Group [8]uint8 `json:"group"`
	Bytes []byte   `json:"bytes,omitempty"` // byte-group direction
	Prev  []byte   `json:"prev,omitempty"`  // byte group passed to Unpack/Pack immediately before (history dependence)
}

func checkBytes(w int, b []byte) *Outcome {
	vals := parquet.VerifBitUnpack(w, b)
	if len(vals) != 8 {
		return viol(fmt.Sprintf("C17/unpack-length/w=%d", w), "Unpack(width %d, % x) returned %d values", w, b, len(vals))
	}
	for _, v := range vals {
		if int(v) >= 1<<uint(w) {
			return viol(fmt.Sprintf("C17/unpack-range/w=%d", w), "Unpack(width %d, % x) = %v has a value that does not fit the width", w, b, vals)
		}
	}
	// reference unpack: value i is bits [i*w,(i+1)*w) of the little-endian byte string
	var x uint32
	for i := 0; i < w; i++ {
		x |= uint32(b[i]) << uint(8*i)
	}
	for i := 0; i < 8; i++ {
		if want := uint8((x >> uint(i*w)) & (1<<uint(w) - 1)); vals[i] != want {
			return viol(fmt.Sprintf("C17/unpack-layout/w=%d", w), "Unpack(width %d, % x) = %v, value %d should be %d", w, b, vals, i, want)
		}
	}
	again := parquet.VerifBitPack(w, vals)
	if string(again) != string(b) {
		return viol(fmt.Sprintf("C17/bytes-roundtrip/w=%d", w), "Pack(Unpack(% x)) = % x (width %d)", b, again, w)
	}
	return nil
}

func checkC17Case(c *GroupCase) *Outcome {
	return guard("C17", func() *Outcome {
		if c.Bytes != nil {
			if c.Prev != nil {
				checkBytes(c.W, c.Prev)
			}
			return checkBytes(c.W, c.Bytes)
		}
		return checkGroup(c.W, &c.Group)
	})
}

// TestC17 enumerates 8-tuples. quick: all tuples for w<=3, a stratified 2^26 slice for w=4;
// thorough: everything. Sharded by (VERIF_SHARDIDX, VERIF_NSHARDS).
func TestC17(t *testing.T) {
	nsh, idx := uint64(envInt("VERIF_NSHARDS", 1)), uint64(envInt("VERIF_SHARDIDX", 0))
	thorough := os.Getenv("VERIF_TIER") == "thorough"
	fail := func(c *GroupCase, o *Outcome) {
		if isKnown("C17", o.Key) {
			return
		}
		saveFail("C17", c, o)
		t.Fatalf("C17 violated: %s", o.Error())
	}
	for w := 1; w <= 4; w++ {
		total := uint64(1) << uint(8*w)
		step := uint64(1)
		if w == 4 && !thorough {
			step = 13 // coprime with 16: the 2^32/13 slice visits every value in every position
		}
		var n, nt int64
		var g [8]uint8
		mask := uint64(1)<<uint(w) - 1
		var sample [8]uint8
		for x := idx * step; x < total; x += nsh * step {
			for i := 0; i < 8; i++ {
				g[i] = uint8((x >> uint(i*w)) & mask)
			}
			if o := guard("C17", func() *Outcome { return checkGroup(w, &g) }); o != nil {
				fail(&GroupCase{W: w, Group: g}, o)
			}
			n++
			if x != 0 {
				nt++
				sample = g
			}
		}
		s := sample
		recordX(statLine{P: "C17", H: fmt.Sprintf("tuples-w%d-%d", w, idx), N: n, DN: nt, L: []string{fmt.Sprintf("tuples/w=%d", w)}}, func() interface{} {
			return map[string]interface{}{"width": w, "group": s, "packed": fmt.Sprintf("% x", parquet.VerifBitPack(w, s[:]))}
		})
		// history dependence: consecutive calls on groups that differ in exactly one bit (and on identical groups)
		{
			var np int64
			stride := uint64(1021)
			if thorough {
				stride = 251
			}
			if w <= 2 {
				stride = 1
			}
			b := make([]byte, w)
			b2 := make([]byte, w)
			for x := idx * stride; x < total; x += nsh * stride {
				for i := 0; i < w; i++ {
					b[i] = byte(x >> uint(8*i))
				}
				for bit := -1; bit < 8*w; bit++ {
					copy(b2, b)
					if bit >= 0 {
						b2[bit/8] ^= 1 << uint(bit%8)
					}
					for _, bb := range [][]byte{b, b2} {
						if o := guard("C17", func() *Outcome { return checkBytes(w, bb) }); o != nil {
							o.Key = fmt.Sprintf("C17/history-dependent/w=%d", w)
							o.Msg = fmt.Sprintf("after a call on % x: %s", b, o.Msg)
							fail(&GroupCase{W: w, Bytes: append([]byte{}, bb...), Prev: append([]byte{}, b...)}, o)
						}
					}
					np++
				}
			}
			recordX(statLine{P: "C17", H: fmt.Sprintf("pairs-w%d-%d", w, idx), N: np, DN: np, L: []string{fmt.Sprintf("consecutive-neighbour-pairs/w=%d", w)}}, nil)
		}
		// byte-group direction: every w-byte group for w<=3 (w=4 follows from the bijection shown above when the tuple enumeration is complete)
		if w <= 3 {
			var nb int64
			b := make([]byte, w)
			for x := idx; x < total; x += nsh {
				for i := 0; i < w; i++ {
					b[i] = byte(x >> uint(8*i))
				}
				if o := guard("C17", func() *Outcome { return checkBytes(w, b) }); o != nil {
					fail(&GroupCase{W: w, Bytes: append([]byte{}, b...)}, o)
				}
				nb++
			}
			recordX(statLine{P: "C17", H: fmt.Sprintf("bytes-w%d-%d", w, idx), N: nb, DN: nb - 1, L: []string{fmt.Sprintf("byte-groups/w=%d", w)}}, nil)
		}
	}
}

func TestReplayC17(t *testing.T) {
	p := os.Getenv("VERIF_REPLAY")
	if p == "" {
		t.Skip()
	}
	var c GroupCase
	if err := loadReplay(p, &c); err != nil {
		t.Fatal(err)
	}
	replayResult(t, "C17", checkC17Case(&c))
}

package props

import (
	"bytes"
	"os"
	"testing"

	"pgregory.net/rapid"

	"verifharness/fx"
	"verifharness/vt"
)

// C01 — write-then-read returns exactly the records that were added.
func checkC01(w *Workload) *Outcome {
	return guard("C01", func() *Outcome {
		f := fx.Get(w.Fixture)
		file, o := writeWorkload(w, "C01", true)
		if o != nil {
			return o
		}
		n := len(w.Records)
		recs, govals, rd, err := readAll(f, bytes.NewReader(file), n+5)
		if err != nil {
			return viol("C01/reader-error", "NewParquetReader: %v", err)
		}
		if e := rd.Error(); e != nil {
			return viol("C01/reader-error", "Error() = %v after %d rows", e, len(recs))
		}
		if rd.Rows() != int64(n) {
			return viol("C01/rows", "Rows() = %d, %d records were written", rd.Rows(), n)
		}
		if len(recs) != n {
			return viol("C01/next-count", "Next() was true %d times, %d records were written", len(recs), n)
		}
		if rd.Next() {
			return viol("C01/next-count", "Next() true again after it returned false")
		}
		for i := range recs {
			if d := vt.Diff(f.Root, w.Records[i], recs[i], ""); d != "" {
				return viol("C01/mismatch", "record %d of %d differs: %s (want vs got)", i, n, d)
			}
		}
		// scanned records do not share memory with each other: overwriting everything reachable from one of them
		// (as a caller owning that record may) leaves the others as they were
		if len(govals) >= 2 {
			for _, victim := range []int{0, len(govals) - 1} {
				vt.Mutate(f.Root, govals[victim].Elem())
				for i, gv := range govals {
					if i == victim {
						continue
					}
					v, _ := vt.Extract(f.Root, gv.Elem())
					if d := vt.Diff(f.Root, w.Records[i], v, ""); d != "" {
						return viol("C01/records-share-memory", "record %d changed when the caller overwrote record %d, which it had scanned into its own struct: %s", i, victim, d)
					}
				}
				// restore the victim for the checks below
				fresh := vt.Build(f.Root, w.Records[victim], false)
				govals[victim].Elem().Set(fresh)
			}
		}
		// records already scanned are not changed by later reads
		for i, gv := range govals {
			v, zero := vt.Extract(f.Root, gv.Elem())
			if d := vt.Diff(f.Root, w.Records[i], v, ""); d != "" {
				return viol("C01/scan-aliasing", "record %d changed after later reads: %s", i, d)
			}
			if !zero {
				return viol("C01/excluded-nonzero", "record %d: an excluded field is not zero after Scan into a fresh struct", i)
			}
		}
		return nil
	})
}

var c01Fixtures = []string{"flat24", "nest", "tiny", "rep3", "stats2", "rep3b", "reqopt"}

func TestC01(t *testing.T) {
	cfg := wlCfg{fixtures: c01Fixtures, maxRecs: envInt("VERIF_MAXRECS", 150), gen: vt.DefaultGen}
	cfg.gen.LongList = 700
	cfg.gen.HugeStr = 70000
	cfg.bigPct = 3
	rapid.Check(t, func(t *rapid.T) {
		w := genWorkload(t, cfg)
		o := checkC01(w)
		record("C01", hashOf(w), w.nontrivial(), w.labels(), w.sample)
		verdict(t, "C01", w, o)
	})
}

func TestReplayC01(t *testing.T) {
	p := os.Getenv("VERIF_REPLAY")
	if p == "" {
		t.Skip()
	}
	var w Workload
	if err := loadReplay(p, &w); err != nil {
		t.Fatal(err)
	}
	replayResult(t, "C01", checkC01(&w))
}

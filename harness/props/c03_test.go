package props

import (
	"fmt"
	"os"
	"testing"

	"pgregory.net/rapid"

	"verifharness/fx"
	"verifharness/pqref"
	"verifharness/vt"
)

// stripingCheck compares the column data of a parsed file with the reference
// Dremel striping of the records (per row group) and reassembles the records
// from the file with the reference assembler.
func stripingCheck(prop string, root *vt.Node, pf *pqref.File, recs []*vt.Val, batches []int) *Outcome {
	cols := root.Columns()
	ri := 0
	for gi, rg := range pf.RowGroups {
		if len(rg.Chunks) != len(cols) {
			return viol(prop+"/columns", "row group %d has %d chunks, shape has %d columns", gi, len(rg.Chunks), len(cols))
		}
		for ci, col := range cols {
			var want []pqref.Triple
			for k := 0; k < batches[gi]; k++ {
				want = append(want, pqref.Shred(col, recs[ri+k])...)
			}
			got := rg.Chunks[ci].Triples()
			if len(got) != len(want) {
				return viol(prop+"/striping/col="+col.Name(), "row group %d column %s: %d entries in the file, canonical striping has %d", gi, col.Name(), len(got), len(want))
			}
			for i := range want {
				g, w := got[i], want[i]
				if g.Rep != w.Rep || g.Def != w.Def {
					return viol(prop+"/striping/col="+col.Name(), "row group %d column %s entry %d: (r=%d,d=%d) in the file, canonical striping has (r=%d,d=%d)", gi, col.Name(), i, g.Rep, g.Def, w.Rep, w.Def)
				}
				if (g.Val == nil) != (w.Val == nil) {
					return viol(prop+"/striping/col="+col.Name(), "row group %d column %s entry %d: value presence differs", gi, col.Name(), i)
				}
				if w.Val != nil {
					if col.Leaf.Kind == vt.String {
						if string(g.Val.S) != string(w.Val.S) {
							return viol(prop+"/striping-value/col="+col.Name(), "row group %d column %s entry %d: value %q, want %q", gi, col.Name(), i, g.Val.S, w.Val.S)
						}
					} else if g.Val.U != w.Val.U {
						return viol(prop+"/striping-value/col="+col.Name(), "row group %d column %s entry %d: value bits %#x, want %#x", gi, col.Name(), i, g.Val.U, w.Val.U)
					}
				}
			}
		}
		ri += batches[gi]
	}
	// a reader that knows only the specification reassembles the records
	got, err := pf.Records(root)
	if err != nil {
		return problemKey(prop, err)
	}
	ri = 0
	for gi := range got {
		for k, r := range got[gi] {
			if d := vt.Diff(root, recs[ri], r, ""); d != "" {
				return viol(prop+"/assembly-mismatch", "row group %d record %d reassembled by the reference differs: %s", gi, k, d)
			}
			ri++
		}
	}
	if ri != len(recs) {
		return viol(prop+"/assembly-mismatch", "file holds %d records, %d were written", ri, len(recs))
	}
	return nil
}

func checkC03(w *Workload) *Outcome {
	return guard("C03", func() *Outcome {
		f := fx.Get(w.Fixture)
		file, o := writeWorkload(w, "C03", false)
		if o != nil {
			return o
		}
		pf, err := pqref.ParseFile(file, pqref.Options{AllowGaps: true})
		if err != nil {
			return problemKey("C03", err)
		}
		return stripingCheck("C03", f.Root, pf, w.Records, w.Batches)
	})
}

// structural labels for a record: does it exercise inner nil groups / empty inner lists / multi-element lists at two levels
func structLabels(root *vt.Node, recs []*vt.Val) (labels []string, nontrivial bool) {
	var innerNil, innerEmpty, multi2 bool
	var walk func(n *vt.Node, v *vt.Val, depth int, multiAbove bool)
	inner := func(n *vt.Node, v *vt.Val, depth int, multiAbove bool) {
		if n.Kind != vt.Group {
			return
		}
		for i, c := range n.Children {
			walk(c, v.F[i], depth+1, multiAbove)
		}
	}
	walk = func(n *vt.Node, v *vt.Val, depth int, multiAbove bool) {
		switch n.Rep {
		case vt.Optional:
			if v.Null {
				if depth >= 2 {
					innerNil = true
				}
				return
			}
			inner(n, v, depth, multiAbove)
		case vt.Repeated:
			if len(v.L) == 0 && depth >= 2 {
				innerEmpty = true
			}
			if len(v.L) >= 2 && multiAbove {
				multi2 = true
			}
			for _, e := range v.L {
				inner(n, e, depth, multiAbove || len(v.L) >= 2)
			}
		default:
			inner(n, v, depth, multiAbove)
		}
	}
	for _, r := range recs {
		inner(root, r, 0, false)
	}
	if innerNil {
		labels = append(labels, "inner-nil")
	}
	if innerEmpty {
		labels = append(labels, "inner-empty-list")
	}
	if multi2 {
		labels = append(labels, "multi-element-lists-at-2-levels")
	}
	return labels, innerNil || innerEmpty || multi2
}

var c03Fixtures = []string{"flat24", "nest", "tiny", "deep", "samename", "rep3", "rep3b", "reqopt", "dupleaf"}

func TestC03(t *testing.T) {
	cfg := wlCfg{fixtures: fixturesFromEnv(c03Fixtures), maxRecs: envInt("VERIF_MAXRECS", 60), gen: vt.DefaultGen}
	cfg.gen.LongList = 300
	cfg.bigPct = 3
	rapid.Check(t, func(t *rapid.T) {
		w := genWorkload(t, cfg)
		o := checkC03(w)
		f := fx.Get(w.Fixture)
		sl, nt := structLabels(f.Root, w.Records)
		record("C03", hashOf(w), nt, append(w.labels(), sl...), w.sample)
		verdict(t, "C03", w, o)
	})
}

// TestC03MiB: one page per column with more than 1 MiB of string values, for each codec (directed: the random workloads reach
// such pages only a few times per run).
func TestC03MiB(t *testing.T) {
	nsh, idx := envInt("VERIF_NSHARDS", 1), envInt("VERIF_SHARDIDX", 0)
	seed := envInt("VERIF_SEED", 1)
	f := fx.Get("tiny")
	g := vt.DefaultGen
	g.LongList, g.MaxList, g.LongStr, g.MaxStr, g.UniformStr, g.NullPct, g.Adversarial = 0, 2, 0, 900, true, 10, false
	for codec := 0; codec < 3; codec++ {
		if codec%nsh != idx {
			continue
		}
		n := 4200 + 37*(seed%13)
		w := &Workload{Fixture: "tiny", PageSize: 10000, Codec: codec, Batches: []int{n}}
		w.Records = rapid.Custom(func(t *rapid.T) []*vt.Val {
			var out []*vt.Val
			for i := 0; i < n; i++ {
				out = append(out, vt.GenRecord(t, f.Root, g))
			}
			return out
		}).Example(3000 + seed*3 + codec)
		o := checkC03(w)
		tot := 0
		for _, r := range w.Records {
			tot += len(r.F[1].S)
		}
		record("C03", fmt.Sprintf("mib/%d/%d", codec, n), true, []string{"page>1MiB", "codec=" + fx.CodecNames[codec]}, func() interface{} {
			return map[string]interface{}{"fixture": "tiny", "records": n, "codec": fx.CodecNames[codec], "page_size": 10000, "strings": "450..900 bytes", "string_bytes_in_page": tot}
		})
		if o != nil {
			if isKnown("C03", o.Key) {
				continue
			}
			saveFail("C03", w, o)
			t.Fatalf("C03 violated: %s", o.Error())
		}
	}
}

func TestReplayC03(t *testing.T) {
	p := os.Getenv("VERIF_REPLAY")
	if p == "" {
		t.Skip()
	}
	var w Workload
	if err := loadReplay(p, &w); err != nil {
		t.Fatal(err)
	}
	replayResult(t, "C03", checkC03(&w))
}

var _ = fmt.Sprint

package props

import (
	"bytes"
	"encoding/json"
	"fmt"
	"io"
	"os"
	"testing"

	"pgregory.net/rapid"

	"github.com/parsyl/parquet"
	sch "github.com/parsyl/parquet/schema"

	"verifharness/fx"
	"verifharness/pqref"
	"verifharness/vt"
)

func p32[T ~int32 | ~int64](p *T) *int32 {
	if p == nil {
		return nil
	}
	v := int32(*p)
	return &v
}

func convStats(s *sch.Statistics) *pqref.Statistics {
	if s == nil {
		return nil
	}
	return &pqref.Statistics{Max: s.Max, Min: s.Min, NullCount: s.NullCount, DistinctCount: s.DistinctCount, MaxValue: s.MaxValue, MinValue: s.MinValue}
}

func convPageHeader(h *sch.PageHeader) *pqref.PageHeader {
	out := &pqref.PageHeader{Type: int32(h.Type), Uncompressed: h.UncompressedPageSize, Compressed: h.CompressedPageSize, CRC: h.Crc}
	if d := h.DataPageHeader; d != nil {
		out.Data = &pqref.DataPageHeader{NumValues: d.NumValues, Encoding: int32(d.Encoding), DefEnc: int32(d.DefinitionLevelEncoding), RepEnc: int32(d.RepetitionLevelEncoding), Stats: convStats(d.Statistics)}
	}
	if h.IndexPageHeader != nil {
		out.Index = &struct{}{}
	}
	if d := h.DictionaryPageHeader; d != nil {
		out.Dict = &pqref.DictPageHeader{NumValues: d.NumValues, Encoding: int32(d.Encoding), IsSorted: d.IsSorted}
	}
	if d := h.DataPageHeaderV2; d != nil {
		c := d.IsCompressed
		out.V2 = &pqref.DataPageHeaderV2{NumValues: d.NumValues, NumNulls: d.NumNulls, NumRows: d.NumRows, Encoding: int32(d.Encoding), DefLen: d.DefinitionLevelsByteLength, RepLen: d.RepetitionLevelsByteLength, IsCompressed: &c, Stats: convStats(d.Statistics)}
	}
	return out
}

func convKV(kv []*sch.KeyValue) []pqref.KeyValue {
	var out []pqref.KeyValue
	for _, e := range kv {
		out = append(out, pqref.KeyValue{Key: e.Key, Value: e.Value})
	}
	return out
}

func convFileMeta(m *sch.FileMetaData) *pqref.FileMetaData {
	out := &pqref.FileMetaData{Version: m.Version, NumRows: m.NumRows, CreatedBy: m.CreatedBy, ColumnOrders: -1, KV: convKV(m.KeyValueMetadata)}
	if m.ColumnOrders != nil {
		out.ColumnOrders = len(m.ColumnOrders)
	}
	for _, se := range m.Schema {
		out.Schema = append(out.Schema, pqref.SchemaElement{Type: p32(se.Type), TypeLength: se.TypeLength, Rep: p32(se.RepetitionType), Name: se.Name,
			NumChildren: se.NumChildren, Converted: p32(se.ConvertedType), Scale: se.Scale, Precision: se.Precision, FieldID: se.FieldID, HasLogical: se.LogicalType != nil})
	}
	for _, rg := range m.RowGroups {
		o := pqref.RowGroup{TotalByteSize: rg.TotalByteSize, NumRows: rg.NumRows}
		for _, cc := range rg.Columns {
			c := pqref.ColumnChunk{FilePath: cc.FilePath, FileOffset: cc.FileOffset}
			if md := cc.MetaData; md != nil {
				x := &pqref.ColumnMetaData{Type: int32(md.Type), Path: md.PathInSchema, Codec: int32(md.Codec), NumValues: md.NumValues,
					TotalUncompressed: md.TotalUncompressedSize, TotalCompressed: md.TotalCompressedSize, KV: convKV(md.KeyValueMetadata),
					DataPageOffset: md.DataPageOffset, IndexPageOffset: md.IndexPageOffset, DictPageOffset: md.DictionaryPageOffset, Stats: convStats(md.Statistics)}
				for _, e := range md.Encodings {
					x.Encodings = append(x.Encodings, int32(e))
				}
				for _, e := range md.EncodingStats {
					x.EncodingStats = append(x.EncodingStats, pqref.PageEncodingStats{PageType: int32(e.PageType), Encoding: int32(e.Encoding), Count: e.Count})
				}
				c.Meta = x
			}
			o.Columns = append(o.Columns, c)
		}
		out.RowGroups = append(out.RowGroups, o)
	}
	return out
}

// canon renders a value as JSON with nil/empty byte slices and lists unified.
func canon(v interface{}) string {
	b, _ := json.Marshal(v)
	var x interface{}
	json.Unmarshal(b, &x)
	x = canonWalk(x)
	b, _ = json.Marshal(x)
	return string(b)
}

func canonWalk(x interface{}) interface{} {
	switch t := x.(type) {
	case map[string]interface{}:
		for k, v := range t {
			t[k] = canonWalk(v)
		}
		return t
	case []interface{}:
		if len(t) == 0 {
			return nil
		}
		for i, v := range t {
			t[i] = canonWalk(v)
		}
		return t
	}
	return x
}

// statsPresenceEqual distinguishes absent from empty byte strings in statistics,
// which canon() deliberately does not.
func introspectionCheck(prop string, file []byte) *Outcome {
	pf, err := pqref.ParseFile(file, pqref.Options{AllowGaps: true})
	if err != nil {
		return viol(prop+"/harness-parse", "independent parser rejects the file: %v", err)
	}
	var r io.ReadSeeker = bytes.NewReader(file)
	if len(file)%2 == 1 {
		// every other file is presented as a region of a larger container: only Read and Seek see the file
		r = newContainerSource(file)
	}
	meta, err := parquet.ReadMetaData(r)
	if err != nil {
		return viol(prop+"/readmetadata-error", "ReadMetaData: %v", err)
	}
	// 1. footer
	ref := *pf.Meta
	// the library's thrift schema predates RowGroup fields 5..7; it cannot report them
	for i := range ref.RowGroups {
		ref.RowGroups[i].FileOffset, ref.RowGroups[i].TotalCompressedSize, ref.RowGroups[i].Ordinal = nil, nil, nil
	}
	got := convFileMeta(meta)
	if a, b := canon(got), canon(&ref); a != b {
		return viol(prop+"/footer-mismatch", "ReadMetaData differs from the independent footer decode:\n lib: %s\n ref: %s", a, b)
	}
	// 2. PageHeaders
	var want []*pqref.PageHeader
	for _, rg := range pf.RowGroups {
		for _, ch := range rg.Chunks {
			for _, pg := range ch.Pages {
				want = append(want, pg.Header)
			}
		}
	}
	hs, err := parquet.PageHeaders(meta, r)
	if err != nil {
		return viol(prop+"/pageheaders-error", "PageHeaders: %v", err)
	}
	if len(hs) != len(want) {
		return viol(prop+"/pageheaders-count", "PageHeaders returned %d headers, the file has %d data pages", len(hs), len(want))
	}
	for i := range hs {
		if a, b := canon(convPageHeader(&hs[i])), canon(want[i]); a != b {
			return viol(prop+"/pageheaders-mismatch", "PageHeaders[%d] differs:\n lib: %s\n ref: %s", i, a, b)
		}
	}
	// 3. PageHeadersAtOffset per chunk and per tail
	for gi, rg := range pf.RowGroups {
		for ci, ch := range rg.Chunks {
			remaining := ch.Col.Meta.NumValues
			for j := 0; j < len(ch.Pages); j++ {
				if j > 2 && j < len(ch.Pages)-2 {
					remaining -= int64(ch.Pages[j].Header.Data.NumValues)
					continue // first three and last two start positions are enough per chunk
				}
				hs, err := parquet.PageHeadersAtOffset(r, ch.Pages[j].Offset, remaining)
				if err != nil {
					return viol(prop+"/atoffset-error", "PageHeadersAtOffset(rg %d col %d from page %d): %v", gi, ci, j, err)
				}
				if len(hs) != len(ch.Pages)-j {
					return viol(prop+"/atoffset-count", "PageHeadersAtOffset(rg %d col %d from page %d, n=%d) returned %d headers, want %d", gi, ci, j, remaining, len(hs), len(ch.Pages)-j)
				}
				for k := range hs {
					if a, b := canon(convPageHeader(&hs[k])), canon(ch.Pages[j+k].Header); a != b {
						return viol(prop+"/atoffset-mismatch", "PageHeadersAtOffset(rg %d col %d from page %d)[%d] differs:\n lib: %s\n ref: %s", gi, ci, j, k, a, b)
					}
				}
				remaining -= int64(ch.Pages[j].Header.Data.NumValues)
				// n = 0 ("the header at this offset"): whatever comes back must be a non-empty prefix of the headers that start here
				hs0, err := parquet.PageHeadersAtOffset(r, ch.Pages[j].Offset, 0)
				if err != nil {
					return viol(prop+"/atoffset-error", "PageHeadersAtOffset(rg %d col %d page %d, n=0): %v", gi, ci, j, err)
				}
				if len(hs0) == 0 || len(hs0) > len(ch.Pages)-j {
					return viol(prop+"/atoffset-count", "PageHeadersAtOffset(rg %d col %d page %d, n=0) returned %d headers, the chunk has %d from there", gi, ci, j, len(hs0), len(ch.Pages)-j)
				}
				for k := range hs0 {
					if a, b := canon(convPageHeader(&hs0[k])), canon(ch.Pages[j+k].Header); a != b {
						return viol(prop+"/atoffset-mismatch", "PageHeadersAtOffset(rg %d col %d page %d, n=0)[%d] differs:\n lib: %s\n ref: %s", gi, ci, j, k, a, b)
					}
				}
			}
		}
	}
	return nil
}

func checkC16(w *Workload) *Outcome {
	return guard("C16", func() *Outcome {
		file, o := writeWorkload(w, "C16", false)
		if o != nil {
			return o
		}
		return introspectionCheck("C16", file)
	})
}

var c16Fixtures = []string{"flat24", "nest", "tiny", "deep", "samename", "rep3", "dupleaf"}

func TestC16(t *testing.T) {
	cfg := wlCfg{fixtures: fixturesFromEnv(c16Fixtures), maxRecs: envInt("VERIF_MAXRECS", 80), gen: vt.DefaultGen, bigPct: 5}
	cfg.gen.LongStr = 6000 // page statistics (min/max) longer than 4 KiB
	rapid.Check(t, func(t *rapid.T) {
		w := genWorkload(t, cfg)
		o := checkC16(w)
		nt := len(w.Batches) >= 2 && w.nontrivial()
		mp := false
		for _, b := range w.Batches {
			if b > w.effPage() {
				mp = true
			}
		}
		record("C16", hashOf(w), nt && mp, w.labels(), w.sample)
		verdict(t, "C16", w, o)
	})
}

func TestReplayC16(t *testing.T) {
	p := os.Getenv("VERIF_REPLAY")
	if p == "" {
		t.Skip()
	}
	var fc C16Case
	if err := loadReplay(p, &fc); err == nil && fc.Foreign != nil {
		replayResult(t, "C16", guard("C16", func() *Outcome {
			file, o := buildForeign("C16", fc.Foreign)
			if o != nil {
				return o
			}
			return introspectionCheck("C16", file)
		}))
		return
	}
	var w Workload
	if err := loadReplay(p, &w); err != nil {
		t.Fatal(err)
	}
	replayResult(t, "C16", checkC16(&w))
}

var _ = fx.Get

// TestC16Foreign: the same oracle on conformant files from the independent writer, which carry optional
// footer / page-header fields the library's own writer never sets (created_by, key/value metadata,
// column_orders, encoding_stats, column statistics, crc, legacy min/max, RowGroup fields 5..7).
func TestC16Foreign(t *testing.T) {
	cfg := foreignCfg{fixtures: fixturesFromEnv([]string{"flat24", "nest", "tiny"}), maxRecs: envInt("VERIF_MAXRECS", 40), gen: vt.DefaultGen}
	rapid.Check(t, func(t *rapid.T) {
		c := &ForeignCase{Fixture: rapid.SampledFrom(cfg.fixtures).Draw(t, "fixture")}
		f := fx.Get(c.Fixture)
		c.Batches = genBatches(t, f, cfg)
		c.Phys = genPhys(t, f.Root, c.Batches, false)
		o := guard("C16", func() *Outcome {
			file, o := buildForeign("C16", c)
			if o != nil {
				return o
			}
			return introspectionCheck("C16", file)
		})
		extras := 0
		for _, b := range []bool{c.Phys.CreatedBy, c.Phys.KV, c.Phys.ColumnOrders, c.Phys.RGExtras, c.Phys.FieldIDs} {
			if b {
				extras++
			}
		}
		multi := false
		for _, rg := range c.Phys.Chunks {
			for _, ch := range rg {
				if len(ch.Pages) >= 2 {
					multi = true
				}
			}
		}
		record("C16", hashOf(c), extras > 0 && multi, []string{"foreign-file", "fixture=" + c.Fixture, fmt.Sprintf("footer-extras=%d", extras)}, c.sample)
		verdict(t, "C16", &C16Case{Foreign: c}, o)
	})
}

// C16Case lets a replay file hold either kind of input.
type C16Case struct {
	Foreign *ForeignCase `json:"foreign,omitempty"`
}

package props

import (
	"bufio"
	"crypto/sha1"
	"encoding/hex"
	"encoding/json"
	"fmt"
	"os"
	"path/filepath"
	"runtime/debug"
	"strconv"
	"strings"
	"sync"
	"testing"

	"pgregory.net/rapid"
)

// Outcome is a property violation. Key identifies *what* fails in a way that
// is stable across runs (it is what known_findings.txt entries match on).
type Outcome struct {
	Key string
	Msg string
}

func (o *Outcome) Error() string { return o.Key + " :: " + o.Msg }

func viol(key, f string, a ...interface{}) *Outcome {
	return &Outcome{Key: key, Msg: fmt.Sprintf(f, a...)}
}

// guard runs f and converts a panic into an Outcome with key <prefix>/panic.
func guard(prefix string, f func() *Outcome) (out *Outcome) {
	defer func() {
		if r := recover(); r != nil {
			st := string(debug.Stack())
			out = &Outcome{Key: prefix + "/panic", Msg: fmt.Sprintf("panic: %v\n%s", r, trimStack(st))}
		}
	}()
	return f()
}

func trimStack(s string) string {
	lines := strings.Split(s, "\n")
	var keep []string
	for _, l := range lines {
		if strings.Contains(l, "/repo/") || strings.Contains(l, "parquet") || strings.Contains(l, "fixtures/") || strings.Contains(l, "lab/") {
			keep = append(keep, strings.TrimSpace(l))
		}
		if len(keep) > 12 {
			break
		}
	}
	return strings.Join(keep, "\n")
}

// ---------------------------------------------------------------------------
// stats

type statLine struct {
	P  string      `json:"p"`
	H  string      `json:"h"`
	NT bool        `json:"nt"`
	L  []string    `json:"l,omitempty"`
	S  interface{} `json:"s,omitempty"`
	K  string      `json:"k,omitempty"`   // known-finding key hit
	X  int         `json:"x,omitempty"`   // excluded-by-construction count
	N  int64       `json:"cnt,omitempty"` // this line stands for N evaluations (bulk enumerations)
	DN int64       `json:"dn,omitempty"`  // ... of which DN are distinct and non-trivial
}

var statsMu sync.Mutex
var statsW *bufio.Writer
var statsF *os.File
var sampleBudget = map[string]int{}

func statsOpen() {
	if statsW != nil {
		return
	}
	p := os.Getenv("VERIF_STATS")
	if p == "" {
		return
	}
	f, err := os.OpenFile(p, os.O_CREATE|os.O_APPEND|os.O_WRONLY, 0644)
	if err != nil {
		panic(err)
	}
	statsF = f
	statsW = bufio.NewWriterSize(f, 1<<16)
}

func hashOf(v interface{}) string {
	b, err := json.Marshal(v)
	if err != nil {
		panic(err)
	}
	h := sha1.Sum(b)
	return hex.EncodeToString(h[:8])
}

// record logs one executed case.
func record(prop string, hash string, nontrivial bool, labels []string, sample func() interface{}) {
	recordX(statLine{P: prop, H: hash, NT: nontrivial, L: labels}, sample)
}

func recordX(l statLine, sample func() interface{}) {
	statsMu.Lock()
	defer statsMu.Unlock()
	statsOpen()
	if statsW == nil {
		return
	}
	if sample != nil && (l.NT || l.N > 0) && sampleBudget[l.P] < 4 {
		sampleBudget[l.P]++
		l.S = sample()
	}
	b, _ := json.Marshal(l)
	// only whole lines go to the file in one write: the fuzz stage has several worker processes appending to it
	if statsW.Buffered() > 0 && statsW.Available() < len(b)+1 {
		statsW.Flush()
	}
	statsW.Write(b)
	statsW.WriteByte('\n')
}

func statsFlush() {
	statsMu.Lock()
	defer statsMu.Unlock()
	if statsW != nil {
		statsW.Flush()
	}
}

func TestMain(m *testing.M) {
	loadKnown()
	code := m.Run()
	statsFlush()
	os.Exit(code)
}

// ---------------------------------------------------------------------------
// known findings

type knownEntry struct {
	Prop, Key, What string
}

var known []knownEntry

func loadKnown() {
	p := os.Getenv("VERIF_KNOWN")
	if p == "" {
		return
	}
	f, err := os.Open(p)
	if err != nil {
		return
	}
	defer f.Close()
	sc := bufio.NewScanner(f)
	for sc.Scan() {
		ln := strings.TrimSpace(sc.Text())
		if !strings.HasPrefix(ln, "known:") {
			continue
		}
		// known: property=C05 key=<key> :: <what>
		rest := strings.TrimSpace(strings.TrimPrefix(ln, "known:"))
		what := ""
		if i := strings.Index(rest, " :: "); i >= 0 {
			what = rest[i+4:]
			rest = rest[:i]
		}
		e := knownEntry{What: what}
		for _, f := range strings.Fields(rest) {
			if strings.HasPrefix(f, "property=") {
				e.Prop = strings.TrimPrefix(f, "property=")
			}
			if strings.HasPrefix(f, "key=") {
				e.Key = strings.TrimPrefix(f, "key=")
			}
		}
		known = append(known, e)
	}
}

// isKnown reports whether a violation key is listed for the property.
// A listed key ending in '*' matches by prefix.
func isKnown(prop, key string) bool {
	for _, e := range known {
		if e.Prop != prop {
			continue
		}
		if e.Key == key {
			return true
		}
		if strings.HasSuffix(e.Key, "*") && strings.HasPrefix(key, strings.TrimSuffix(e.Key, "*")) {
			return true
		}
	}
	return false
}

// ---------------------------------------------------------------------------
// failure files

// saveFail writes the failing case; the last one written by a shard is the shrunk case.
func saveFail(prop string, c interface{}, o *Outcome) {
	dir := os.Getenv("VERIF_FAILDIR")
	if dir == "" {
		return
	}
	shard := os.Getenv("VERIF_SHARD")
	b, _ := json.MarshalIndent(map[string]interface{}{"property": prop, "key": o.Key, "msg": o.Msg, "case": c}, "", " ")
	os.WriteFile(filepath.Join(dir, fmt.Sprintf("%s-%s.json", prop, shard)), b, 0644)
}

// verdict handles the outcome of one case inside a rapid property.
func verdict(t *rapid.T, prop string, c interface{}, o *Outcome) {
	if o == nil {
		return
	}
	if isKnown(prop, o.Key) {
		recordX(statLine{P: prop, H: "known", K: o.Key}, nil)
		return
	}
	if strings.HasSuffix(o.Key, "/harness") {
		// a self-check of the harness failed: inconclusive, never a violation (no fail file => driver exits 2)
		t.Fatalf("HARNESS SELF-CHECK FAILED: %s", o.Error())
	}
	saveFail(prop, c, o)
	t.Fatalf("%s violated: %s", prop, o.Error())
}

func envInt(name string, def int) int {
	if s := os.Getenv(name); s != "" {
		if v, err := strconv.Atoi(s); err == nil {
			return v
		}
	}
	return def
}

// loadReplay reads a replay file's "case" member into c.
func loadReplay(path string, c interface{}) error {
	b, err := os.ReadFile(path)
	if err != nil {
		return err
	}
	var w struct {
		Case json.RawMessage `json:"case"`
	}
	if err := json.Unmarshal(b, &w); err != nil {
		return err
	}
	return json.Unmarshal(w.Case, c)
}

// replayResult prints the outcome of a replay in a form the driver parses.
func replayResult(t *testing.T, prop string, o *Outcome) {
	if o == nil {
		fmt.Printf("REPLAY-OK property=%s\n", prop)
		return
	}
	fmt.Printf("REPLAY-FAIL property=%s key=%s\n%s\n", prop, o.Key, o.Msg)
	if isKnown(prop, o.Key) {
		fmt.Printf("REPLAY-KNOWN property=%s key=%s\n", prop, o.Key)
		return
	}
	t.Fail()
}

// fuzzSeeds gives the coverage-guided fuzzer starting inputs long enough to drive the generators
// (rapid.MakeFuzz reads its random choices from the fuzz input; an empty corpus yields only rejected cases).
func fuzzSeeds(f *testing.F) {
	for k := uint64(1); k <= 8; k++ {
		n := 1 << (9 + k%4) // 1..8 KiB
		b := make([]byte, n)
		x := k * 0x9e3779b97f4a7c15
		for i := range b {
			x ^= x << 13
			x ^= x >> 7
			x ^= x << 17
			b[i] = byte(x >> 40)
		}
		f.Add(b)
	}
	f.Add(make([]byte, 2048))
}

package props

import (
	"bytes"
	"fmt"
	"os"
	"testing"

	"pgregory.net/rapid"

	"verifharness/fx"
	"verifharness/vt"
)

var srcModes = []string{"read0-once", "read0-sticky", "readhalf-once", "readhalf-sticky", "seek-once", "seek-sticky"}

// readWithFaults opens and iterates a file over a failing source following the README loop.
// ok=true means an error was reported or all delivered rows are right and complete.
func readWithFaults(prop string, f *fx.Fixture, src *faultSource, want []*vt.Val) *Outcome {
	recs, _, rd, err := readAll(f, src, len(want)+5)
	if err != nil {
		return nil // constructor reported an error
	}
	if e := rd.Error(); e != nil {
		return nil
	}
	if src.fired == 0 {
		return nil
	}
	if len(recs) != len(want) {
		return viol(prop+"/silent-row-count", "source failed at call %d (%s) yet no error was reported and %d of %d rows were delivered", src.failAt, src.mode, len(recs), len(want))
	}
	for i := range recs {
		if d := vt.Diff(f.Root, want[i], recs[i], ""); d != "" {
			return viol(prop+"/silent-wrong-row", "source failed at call %d (%s) yet no error was reported and row %d is wrong: %s", src.failAt, src.mode, i, d)
		}
	}
	return nil
}

func checkC10(w *Workload, emit func(k int, mode string, kind byte)) *Outcome {
	var file []byte
	var kinds []byte
	f := fx.Get(w.Fixture)
	o := guard("C10", func() *Outcome {
		var o *Outcome
		file, o = writeWorkload(w, "C10", false)
		if o != nil {
			return viol("C10/baseline", "%s", o.Error())
		}
		base := &faultSource{data: file}
		recs, _, rd, err := readAll(f, base, len(w.Records)+5)
		if err != nil || rd.Error() != nil || len(recs) != len(w.Records) {
			return viol("C10/baseline", "fault-free read failed: %v", err)
		}
		kinds = base.kinds
		return nil
	})
	if o != nil {
		return o
	}
	for k := 1; k <= len(kinds); k++ {
		for _, mode := range srcModes {
			isSeekMode := mode[:4] == "seek"
			if (kinds[k-1] == 's') != isSeekMode {
				continue
			}
			o := guard("C10", func() *Outcome {
				src := &faultSource{data: file, failAt: k, mode: mode}
				return readWithFaults("C10", f, src, w.Records)
			})
			if o != nil {
				o.Msg = fmt.Sprintf("[k=%d of %d mode=%s] %s", k, len(kinds), mode, o.Msg)
				return o
			}
			if emit != nil {
				emit(k, mode, kinds[k-1])
			}
		}
	}
	return nil
}

var c10Fixtures = []string{"tiny", "flat24", "nest"}

func TestC10(t *testing.T) {
	cfg := wlCfg{fixtures: fixturesFromEnv(c10Fixtures), maxRecs: envInt("VERIF_MAXRECS", 12), gen: vt.DefaultGen, noPatterns: true}
	cfg.gen.MaxList = 3
	rapid.Check(t, func(t *rapid.T) {
		w := genWorkload(t, cfg)
		if rapid.Bool().Draw(t, "smallpages") {
			w.PageSize = rapid.IntRange(1, 4).Draw(t, "ps")
		}
		h := hashOf(w)
		base := w.labels()
		o := checkC10(w, func(k int, mode string, kind byte) {
			record("C10", fmt.Sprintf("%s/%d/%s", h, k, mode), true, []string{"mode=" + mode, base[0], base[1]}, func() interface{} {
				return map[string]interface{}{"fail_source_call": k, "mode": mode, "call_kind": string(kind), "workload": w.sample()}
			})
		})
		verdict(t, "C10", w, o)
	})
}

func TestReplayC10(t *testing.T) {
	p := os.Getenv("VERIF_REPLAY")
	if p == "" {
		t.Skip()
	}
	var w Workload
	if err := loadReplay(p, &w); err != nil {
		t.Fatal(err)
	}
	replayResult(t, "C10", checkC10(&w, nil))
}

// TestC10Big: the same fault enumeration on a few fixed big files (one page of > 2040 records per column, so that
// page bodies of every column family - incl. bit-packed required bools - are far larger than any internal buffer).
func TestC10Big(t *testing.T) {
	if !fx.Has("big") || !fx.Has("bigtail") {
		t.Skip()
	}
	nsh, idx := envInt("VERIF_NSHARDS", 1), envInt("VERIF_SHARDIDX", 0)
	f := fx.Get("big")
	g := vt.DefaultGen
	g.LongList, g.MaxList, g.LongStr, g.MaxStr, g.UniformStr = 0, 2, 0, 24, true
	k := 0
	// one more file: a single uncompressed page of about 5 MiB (5000 strings of 1000 bytes), read in one piece
	if nsh == 1 || idx == nsh-1 {
		w := &Workload{Fixture: "bigtail", PageSize: 10000, Codec: fx.Uncompressed, Batches: []int{5000}}
		for i := 0; i < 5000; i++ {
			s := bytes.Repeat([]byte{byte('a' + i%26)}, 1000)
			w.Records = append(w.Records, &vt.Val{F: []*vt.Val{{U: uint64(i)}, {S: vt.Bytes(s)}}})
		}
		o := checkC10(w, func(k int, mode string, kind byte) {
			record("C10", fmt.Sprintf("big5m/%d/%s", k, mode), true, []string{"mode=" + mode, "fixture=big", "page-payload>4MiB"}, nil)
		})
		if o != nil && !isKnown("C10", o.Key) {
			saveFail("C10", w, o)
			t.Fatalf("C10 violated: %s", o.Error())
		}
	}
	// two more files: one page of incompressible strings whose *compressed* body is well beyond 32 KiB / 64 KiB (gzip, snappy),
	// so that a reader which streams or sub-buffers large compressed pages takes that path
	for ci, codec := range []int{fx.Gzip, fx.Snappy} {
		if nsh != 1 && idx != ci%nsh {
			continue
		}
		w := &Workload{Fixture: "bigtail", PageSize: 10000, Codec: codec, Batches: []int{2500}}
		x := uint64(0x9e3779b97f4a7c15) + uint64(ci)
		for i := 0; i < 2500; i++ {
			b := make([]byte, 40)
			for j := range b {
				x ^= x << 13
				x ^= x >> 7
				x ^= x << 17
				b[j] = byte(x >> 32)
			}
			w.Records = append(w.Records, &vt.Val{F: []*vt.Val{{U: x}, {S: vt.Bytes(b)}}})
		}
		h := "bigz/" + fx.CodecNames[codec]
		o := checkC10(w, func(k int, mode string, kind byte) {
			record("C10", fmt.Sprintf("%s/%d/%s", h, k, mode), true, []string{"mode=" + mode, "fixture=big", "codec=" + fx.CodecNames[codec], "compressed-page>64KiB"}, nil)
		})
		if o != nil && !isKnown("C10", o.Key) {
			saveFail("C10", w, o)
			t.Fatalf("C10 violated: %s", o.Error())
		}
	}
	for codec := 0; codec < 3; codec++ {
		for _, batches := range [][]int{{2100}, {2090, 10}} {
			k++
			if k%nsh != idx {
				continue
			}
			w := &Workload{Fixture: "big", PageSize: 10000, Codec: codec, Batches: batches}
			recs := rapid.Custom(func(t *rapid.T) []*vt.Val {
				var out []*vt.Val
				for i := 0; i < 2100; i++ {
					out = append(out, vt.GenRecord(t, f.Root, g))
				}
				return out
			}).Example(1000 + k)
			w.Records = recs
			h := fmt.Sprintf("big/%d/%v", codec, batches)
			o := checkC10(w, func(k int, mode string, kind byte) {
				record("C10", fmt.Sprintf("%s/%d/%s", h, k, mode), true, []string{"mode=" + mode, "fixture=big", "codec=" + fx.CodecNames[codec], "big-file"}, nil)
			})
			if o != nil {
				if isKnown("C10", o.Key) {
					continue
				}
				saveFail("C10", w, o)
				t.Fatalf("C10 violated: %s", o.Error())
			}
		}
	}
}

package props

import (
	"bytes"
	"fmt"
	"os"
	"testing"

	"pgregory.net/rapid"

	"verifharness/fx"
	"verifharness/pqref"
	"verifharness/vt"
)

// checkPrefix opens and iterates a truncated file; returns a violation if it is accepted.
func checkPrefix(prop string, f *fx.Fixture, prefix []byte, full int) *Outcome {
	if o := checkPrefixAt(prop, f, prefix, full, 0); o != nil {
		return o
	}
	// short prefixes and a sample of the others are also opened as a file on disk (*os.File): error values and
	// capabilities of the source differ from an in-memory reader
	if len(prefix) < 12 || len(prefix)%53 == 0 || full-len(prefix) <= 9 {
		if o := checkPrefixFile(prop, f, prefix, full); o != nil {
			return o
		}
	}
	// the same prefix handed over with the source positioned after the leading magic (a caller that sniffed "PAR1" first)
	if len(prefix) >= 4 {
		if o := checkPrefixAt(prop, f, prefix, full, 4); o != nil && o.Key != "exempt" {
			o.Msg = "[source handed over at offset 4] " + o.Msg
			return o
		}
	}
	return nil
}

func checkPrefixFile(prop string, f *fx.Fixture, prefix []byte, full int) *Outcome {
	return guard(prop, func() *Outcome {
		tmp, err := os.CreateTemp("", "c11prefix*.parquet")
		if err != nil {
			return viol(prop+"/harness", "%v", err)
		}
		defer os.Remove(tmp.Name())
		tmp.Write(prefix)
		tmp.Close()
		file, err := os.Open(tmp.Name())
		if err != nil {
			return viol(prop+"/harness", "%v", err)
		}
		defer file.Close()
		recs, _, rd, err := readAll(f, file, 1<<20)
		if err != nil || rd.Error() != nil {
			return nil
		}
		if _, perr := pqref.ParseFile(prefix, pqref.Options{AllowGaps: true}); perr == nil {
			return nil
		}
		return viol(prop+"/accepted", "[opened as *os.File] prefix of %d bytes (of %d) was accepted: no error from the constructor or Error(), %d rows delivered", len(prefix), full, len(recs))
	})
}

func checkPrefixAt(prop string, f *fx.Fixture, prefix []byte, full int, startAt int64) *Outcome {
	return guard(prop, func() *Outcome {
		src := bytes.NewReader(prefix)
		src.Seek(startAt, 0)
		recs, _, rd, err := readAll(f, src, 1<<20)
		if err != nil {
			return nil
		}
		if rd.Error() != nil {
			return nil
		}
		// accepted. Exemption: the prefix is itself a structurally valid Parquet file.
		if _, perr := pqref.ParseFile(prefix, pqref.Options{AllowGaps: true}); perr == nil {
			return &Outcome{Key: "exempt"}
		}
		return viol(prop+"/accepted", "prefix of %d bytes (of %d) was accepted: no error from the constructor or Error(), %d rows delivered", len(prefix), full, len(recs))
	})
}

func checkC11(w *Workload, emit func(n int, region string)) (*Outcome, int) {
	f := fx.Get(w.Fixture)
	var file []byte
	o := guard("C11", func() *Outcome {
		var o *Outcome
		file, o = writeWorkload(w, "C11", false)
		if o != nil {
			return viol("C11/baseline", "%s", o.Error())
		}
		return nil
	})
	if o != nil {
		return o, 0
	}
	exempt := 0
	footerOff := len(file)
	if pf, err := pqref.ParseFile(file, pqref.Options{AllowGaps: true}); err == nil {
		footerOff = pf.FooterOff
	}
	for n := 0; n < len(file); n++ {
		o := checkPrefix("C11", f, file[:n], len(file))
		if o != nil && o.Key == "exempt" {
			exempt++
			o = nil
		}
		if o != nil {
			return o, exempt
		}
		if emit != nil {
			region := "cut-in-data"
			switch {
			case n < 4:
				region = "cut-in-magic"
			case n >= len(file)-8:
				region = "cut-in-tail"
			case n >= footerOff:
				region = "cut-in-footer"
			}
			emit(n, region)
		}
	}
	// the same source object reused (bytes.Reader.Reset, a pooled reader): the complete file is opened through it first, then a
	// truncated one - anything the library remembers about a source it has seen must not outlive the bytes behind it
	shared := bytes.NewReader(file)
	step := 1
	if len(file)-footerOff > 48 {
		step = (len(file) - footerOff) / 48
	}
	k := 0
	for n := len(file) - 1; n >= 0; n -= step {
		if n < footerOff-8 {
			step = 23
		}
		k++
		reopen := k%6 == 1
		prefix := file[:n]
		o := guard("C11", func() *Outcome {
			if reopen {
				shared.Reset(file)
				if _, _, rd, err := readAll(f, shared, 1<<20); err != nil || rd.Error() != nil {
					return viol("C11/baseline", "the complete file is rejected when opened through a reused reader")
				}
			}
			shared.Reset(prefix)
			recs, _, rd, err := readAll(f, shared, 1<<20)
			if err != nil || rd.Error() != nil {
				return nil
			}
			if _, perr := pqref.ParseFile(prefix, pqref.Options{AllowGaps: true}); perr == nil {
				return nil
			}
			return viol("C11/accepted", "[same *bytes.Reader reused after reading the complete file] prefix of %d bytes (of %d) was accepted: no error from the constructor or Error(), %d rows delivered", len(prefix), len(file), len(recs))
		})
		if o != nil {
			return o, exempt
		}
	}
	return nil, exempt
}

var c11Fixtures = []string{"tiny", "flat24", "nest"}

func TestC11(t *testing.T) {
	cfg := wlCfg{fixtures: fixturesFromEnv(c11Fixtures), maxRecs: envInt("VERIF_MAXRECS", 16), gen: vt.DefaultGen, noPatterns: true}
	cfg.gen.MaxList = 3
	cfg.gen.LongStr = 60
	rapid.Check(t, func(t *rapid.T) {
		cfg.gen.Class = rapid.SampledFrom([]string{"", "", "", "thrift-nest", "tail-forgery"}).Draw(t, "class")
		w := genWorkload(t, cfg)
		if len(w.Batches) > 3 {
			n := 0
			for _, b := range w.Batches[2:] {
				n += b
			}
			w.Batches = append(w.Batches[:2:2], n)
		}
		h := hashOf(w)
		base := w.labels()
		o, exempt := checkC11(w, func(n int, region string) {
			record("C11", fmt.Sprintf("%s/%d", h, n), true, []string{region, base[0], base[1]}, func() interface{} {
				return map[string]interface{}{"prefix_len": n, "region": region, "workload": w.sample()}
			})
		})
		if exempt > 0 {
			recordX(statLine{P: "C11", H: h, L: []string{"prefix_is_valid_file"}, NT: false}, nil)
		}
		verdict(t, "C11", w, o)
	})
}

func TestReplayC11(t *testing.T) {
	p := os.Getenv("VERIF_REPLAY")
	if p == "" {
		t.Skip()
	}
	var tc TailCase
	if err := loadReplay(p, &tc); err == nil && tc.W != nil {
		f := fx.Get(tc.W.Fixture)
		var o *Outcome
		file, wo := writeWorkload(tc.W, "C11", false)
		if wo != nil {
			o = viol("C11/baseline", "%s", wo.Error())
		} else if tc.Cut >= 0 && tc.Cut < len(file) {
			o = checkPrefix("C11", f, file[:tc.Cut], len(file))
			if o != nil && o.Key == "exempt" {
				o = nil
			}
		}
		replayResult(t, "C11", o)
		return
	}
	var w Workload
	if err := loadReplay(p, &w); err != nil {
		t.Fatal(err)
	}
	o, _ := checkC11(&w, nil)
	replayResult(t, "C11", o)
}

// TestC11Tail: a directed enumeration for the crash point "everything but the last few bytes arrived".
// Files with many different footer lengths are built (1..45 row groups, 1..6 rows in the last one, padding
// strings that move offsets across varint-length boundaries, 3 codecs) and every cut inside the last 16 bytes
// is tried. Random files almost never have the footer length at which a reader that does not look at the
// trailing magic mistakes the tail of the footer for a length field; a dense sweep does.
func TestC11Tail(t *testing.T) {
	nsh, idx := envInt("VERIF_NSHARDS", 1), envInt("VERIF_SHARDIDX", 0)
	f := fx.Get("tiny")
	maxG, maxPad := 45, 40
	if os.Getenv("VERIF_TIER") != "thorough" {
		maxG, maxPad = 30, 26
	}
	lens := map[int]bool{}
	var n int64
	k := 0
	for g := 1; g <= maxG; g++ {
		for r := 1; r <= 6; r++ {
			for codec := 0; codec < 3; codec++ {
				for pad := 0; pad < maxPad; pad++ {
					k++
					if k%nsh != idx {
						continue
					}
					w := &Workload{Fixture: "tiny", PageSize: 100, Codec: codec}
					for i := 0; i < g-1; i++ {
						w.Records = append(w.Records, &vt.Val{F: []*vt.Val{{U: uint64(i)}, {S: vt.Bytes(bytes.Repeat([]byte("x"), pad*7))}, {}}})
						w.Batches = append(w.Batches, 1)
					}
					for i := 0; i < r; i++ {
						w.Records = append(w.Records, &vt.Val{F: []*vt.Val{{U: uint64(i)}, {Null: true}, {}}})
					}
					w.Batches = append(w.Batches, r)
					var file []byte
					if o := guard("C11", func() *Outcome {
						var o *Outcome
						file, o = writeWorkload(w, "C11", false)
						return o
					}); o != nil {
						t.Fatalf("HARNESS SELF-CHECK FAILED: %s", o.Error())
					}
					lens[len(file)] = true
					for cut := len(file) - 16; cut < len(file); cut++ {
						if cut < 0 {
							continue
						}
						o := checkPrefix("C11", f, file[:cut], len(file))
						n++
						if o != nil && o.Key != "exempt" {
							o.Msg = fmt.Sprintf("[%d row groups, %d rows in the last one, %s, padding %d] %s", g, r, fx.CodecNames[codec], pad*7, o.Msg)
							if isKnown("C11", o.Key) {
								continue
							}
							saveFail("C11", &TailCase{W: w, Cut: cut}, o)
							t.Fatalf("C11 violated: %s", o.Error())
						}
					}
				}
			}
		}
	}
	recordX(statLine{P: "C11", H: fmt.Sprintf("tail-%d", idx), N: n, DN: n, L: []string{"tail-cuts(last-16-bytes)", fmt.Sprintf("distinct-file-lengths-in-shard=%d", len(lens))}}, func() interface{} {
		return map[string]interface{}{"stage": "tail cuts", "files": n / 16, "cuts_per_file": 16}
	})
}

// TailCase is a file plus one cut position.
type TailCase struct {
	W   *Workload `json:"w"`
	Cut int       `json:"cut"`
}

package props

import (
	"bytes"
	"fmt"
	"os"
	"testing"

	"pgregory.net/rapid"

	"verifharness/fx"
	"verifharness/pqref"
	"verifharness/vt"
)

// checkPrefix opens and iterates a truncated file; returns a violation if it is accepted.
func checkPrefix(prop string, f *fx.Fixture, prefix []byte, full int) *Outcome {
	if o := checkPrefixAt(prop, f, prefix, full, 0); o != nil {
		return o
	}
	// the same prefix handed over with the source positioned after the leading magic (a caller that sniffed "PAR1" first)
	if len(prefix) >= 4 {
		if o := checkPrefixAt(prop, f, prefix, full, 4); o != nil && o.Key != "exempt" {
			o.Msg = "[source handed over at offset 4] " + o.Msg
			return o
		}
	}
	return nil
}

func checkPrefixAt(prop string, f *fx.Fixture, prefix []byte, full int, startAt int64) *Outcome {
	return guard(prop, func() *Outcome {
		src := bytes.NewReader(prefix)
		src.Seek(startAt, 0)
		recs, _, rd, err := readAll(f, src, 1<<20)
		if err != nil {
			return nil
		}
		if rd.Error() != nil {
			return nil
		}
		// accepted. Exemption: the prefix is itself a structurally valid Parquet file.
		if _, perr := pqref.ParseFile(prefix, pqref.Options{AllowGaps: true}); perr == nil {
			return &Outcome{Key: "exempt"}
		}
		return viol(prop+"/accepted", "prefix of %d bytes (of %d) was accepted: no error from the constructor or Error(), %d rows delivered", len(prefix), full, len(recs))
	})
}

func checkC11(w *Workload, emit func(n int, region string)) (*Outcome, int) {
	f := fx.Get(w.Fixture)
	var file []byte
	o := guard("C11", func() *Outcome {
		var o *Outcome
		file, o = writeWorkload(w, "C11", false)
		if o != nil {
			return viol("C11/baseline", "%s", o.Error())
		}
		return nil
	})
	if o != nil {
		return o, 0
	}
	exempt := 0
	footerOff := len(file)
	if pf, err := pqref.ParseFile(file, pqref.Options{AllowGaps: true}); err == nil {
		footerOff = pf.FooterOff
	}
	for n := 0; n < len(file); n++ {
		o := checkPrefix("C11", f, file[:n], len(file))
		if o != nil && o.Key == "exempt" {
			exempt++
			o = nil
		}
		if o != nil {
			return o, exempt
		}
		if emit != nil {
			region := "cut-in-data"
			switch {
			case n < 4:
				region = "cut-in-magic"
			case n >= len(file)-8:
				region = "cut-in-tail"
			case n >= footerOff:
				region = "cut-in-footer"
			}
			emit(n, region)
		}
	}
	return nil, exempt
}

var c11Fixtures = []string{"tiny", "flat24", "nest"}

func TestC11(t *testing.T) {
	cfg := wlCfg{fixtures: fixturesFromEnv(c11Fixtures), maxRecs: envInt("VERIF_MAXRECS", 16), gen: vt.DefaultGen}
	cfg.gen.MaxList = 3
	cfg.gen.LongStr = 60
	rapid.Check(t, func(t *rapid.T) {
		cfg.gen.Class = rapid.SampledFrom([]string{"", "", "", "thrift-nest"}).Draw(t, "class")
		w := genWorkload(t, cfg)
		if len(w.Batches) > 3 {
			n := 0
			for _, b := range w.Batches[2:] {
				n += b
			}
			w.Batches = append(w.Batches[:2:2], n)
		}
		h := hashOf(w)
		base := w.labels()
		o, exempt := checkC11(w, func(n int, region string) {
			record("C11", fmt.Sprintf("%s/%d", h, n), true, []string{region, base[0], base[1]}, func() interface{} {
				return map[string]interface{}{"prefix_len": n, "region": region, "workload": w.sample()}
			})
		})
		if exempt > 0 {
			recordX(statLine{P: "C11", H: h, L: []string{"prefix_is_valid_file"}, NT: false}, nil)
		}
		verdict(t, "C11", w, o)
	})
}

func TestReplayC11(t *testing.T) {
	p := os.Getenv("VERIF_REPLAY")
	if p == "" {
		t.Skip()
	}
	var w Workload
	if err := loadReplay(p, &w); err != nil {
		t.Fatal(err)
	}
	o, _ := checkC11(&w, nil)
	replayResult(t, "C11", o)
}

package props

import (
	"bytes"
	"encoding/binary"
	"fmt"
	"os"
	"testing"

	"pgregory.net/rapid"

	"github.com/parsyl/parquet"
	sch "github.com/parsyl/parquet/schema"

	"verifharness/pqref"
)

// LevelCase is a level sequence of a given width with an optional segmentation
// (for the decode direction) and the path it is pushed through.
type LevelCase struct {
	W      int         `json:"w"`
	Levels []uint8     `json:"levels"`
	Segs   []pqref.Run `json:"segs,omitempty"`
	Pad    uint8       `json:"pad"`
	API    bool        `json:"api"` // also go through NewOptionalField/DoWrite/DoRead
}

func levelsEqual(a, b []uint8) (int, bool) {
	if len(a) != len(b) {
		return -1, false
	}
	for i := range a {
		if a[i] != b[i] {
			return i, false
		}
	}
	return 0, true
}

func showLevels(l []uint8) string {
	if len(l) <= 40 {
		return fmt.Sprint(l)
	}
	return fmt.Sprintf("%v...(%d values)", l[:40], len(l))
}

// encodeSide: library encoder output must be well-formed and decode (strictly) to the input.
func checkEncode(c *LevelCase) (*Outcome, *pqref.LevelInfo) {
	enc, err := parquet.VerifRLEEncode(int32(c.W), c.Levels)
	if err != nil {
		return viol("C07/encode-error", "encoder error: %v", err), nil
	}
	got, info, err := pqref.DecodeLevelsStrict(enc, c.W, len(c.Levels))
	if err != nil {
		return viol("C07/encode-malformed", "width %d levels %s: encoder output % x is not a well-formed hybrid stream: %v", c.W, showLevels(c.Levels), trunc(enc), err), nil
	}
	if info.Consumed != len(enc) {
		return viol("C07/encode-malformed", "width %d levels %s: length prefix covers %d of %d bytes", c.W, showLevels(c.Levels), info.Consumed, len(enc)), nil
	}
	if i, ok := levelsEqual(got, c.Levels); !ok {
		return viol("C07/encode-wrong", "width %d levels %s: a specification decoder reads back %s (first difference at %d)", c.W, showLevels(c.Levels), showLevels(got), i), nil
	}
	// and the library's own decoder inverts it
	back, n, err := parquet.VerifRLEDecode(int32(c.W), enc)
	if err != nil {
		return viol("C07/roundtrip-error", "width %d levels %s: library decoder rejects the library encoder's output: %v", c.W, showLevels(c.Levels), err), nil
	}
	if n != len(enc) {
		return viol("C07/decode-consumed", "width %d: decoder reports %d bytes consumed, stream has %d", c.W, n, len(enc)), nil
	}
	if len(back) < len(c.Levels) || len(back)-len(c.Levels) >= 8 {
		return viol("C07/roundtrip-wrong", "width %d levels %s: library round trip returns %d values", c.W, showLevels(c.Levels), len(back)), nil
	}
	if i, ok := levelsEqual(back[:len(c.Levels)], c.Levels); !ok {
		return viol("C07/roundtrip-wrong", "width %d levels %s: library round trip differs at %d", c.W, showLevels(c.Levels), i), nil
	}
	return nil, info
}

func trunc(b []byte) []byte {
	if len(b) > 64 {
		return b[:64]
	}
	return b
}

// decodeSide: the library decoder must accept a foreign well-formed encoding of the levels.
func checkDecode(c *LevelCase) *Outcome {
	enc, err := pqref.EncodeLevels(c.Levels, c.W, c.Segs, c.Pad)
	if err != nil {
		return viol("C07/harness", "bad segmentation: %v", err)
	}
	// self-check: the strict decoder accepts the harness encoding
	ref, info, err := pqref.DecodeLevelsStrict(enc, c.W, len(c.Levels))
	if err != nil {
		return viol("C07/harness", "harness encoder/decoder disagree: %v", err)
	}
	if _, ok := levelsEqual(ref, c.Levels); !ok {
		return viol("C07/harness", "harness encoder/decoder disagree on values")
	}
	got, n, err := parquet.VerifRLEDecode(int32(c.W), enc)
	if err != nil {
		return viol("C07/decode-error", "width %d: library decoder rejects the well-formed stream % x (runs %s): %v", c.W, trunc(enc), showRuns(info.Runs), err)
	}
	if n != len(enc) {
		return viol("C07/decode-consumed", "width %d: decoder reports %d bytes consumed, the stream has %d (runs %s)", c.W, n, len(enc), showRuns(info.Runs))
	}
	if len(got) != info.Decoded {
		return viol("C07/decode-wrong", "width %d: decoder returned %d values, the stream holds %d incl. padding (runs %s)", c.W, len(got), info.Decoded, showRuns(info.Runs))
	}
	if i, ok := levelsEqual(got[:len(c.Levels)], c.Levels); !ok {
		return viol("C07/decode-wrong", "width %d: decoder output differs from the encoded levels at %d (runs %s)", c.W, i, showRuns(info.Runs))
	}
	return nil
}

func showRuns(rs []pqref.Run) string {
	s := ""
	for i, r := range rs {
		if i >= 12 {
			s += fmt.Sprintf("...(%d runs)", len(rs))
			break
		}
		if r.RLE {
			s += fmt.Sprintf("R%d ", r.Count)
		} else {
			s += fmt.Sprintf("B%d ", r.Count)
		}
	}
	return s
}

// ---- public column API path -------------------------------------------------

func int32Type(se *sch.SchemaElement) {
	t := sch.Type_INT32
	se.Type = &t
}

// typesFor returns a repetition-type list whose max definition level needs width w
// (all optional), or whose max repetition level needs width w (all repeated).
func typesFor(w int, repeated bool) []int {
	n := 1<<uint(w) - 1
	out := make([]int, n)
	for i := range out {
		if repeated {
			out[i] = 2
		} else {
			out[i] = 1
		}
	}
	return out
}

type nullStats struct{}

func (nullStats) NullCount() *int64     { return nil }
func (nullStats) DistinctCount() *int64 { return nil }
func (nullStats) Min() []byte           { return nil }
func (nullStats) Max() []byte           { return nil }

// apiWrite pushes def levels (and, when reps != nil, rep levels) through OptionalField.DoWrite and returns the page bytes.
func apiWrite(types []int, defs, reps []uint8) ([]byte, int, error) {
	f := parquet.NewOptionalField([]string{"c"}, types, parquet.OptionalFieldUncompressed)
	meta := parquet.New(parquet.Field{Name: "c", Path: []string{"c"}, Types: types, Type: int32Type, RepetitionType: parquet.RepetitionOptional})
	f.Defs = defs
	f.Reps = reps
	nv := 0
	for _, d := range defs {
		if d == f.MaxLevels.Def {
			nv++
		}
	}
	vals := make([]byte, 4*nv)
	for i := 0; i < nv; i++ {
		binary.LittleEndian.PutUint32(vals[4*i:], uint32(i))
	}
	var buf bytes.Buffer
	err := f.DoWrite(&buf, meta, vals, len(defs), nullStats{})
	return buf.Bytes(), nv, err
}

func checkAPIWrite(c *LevelCase, repeated bool) *Outcome {
	var types []int
	var defs, reps []uint8
	defW, repW := c.W, 0
	if repeated {
		// rep levels of width W from the case; def levels: all "max" (every entry has a value)
		types = typesFor(c.W, true)
		reps = c.Levels
		defs = make([]uint8, len(c.Levels))
		maxDef := uint8(len(types))
		for i := range defs {
			defs[i] = maxDef
		}
		defW = pqref.BitWidth(len(types))
		repW = c.W
		if defW > 4 {
			return nil // the level codec supports widths up to 4; 15 repeated levels would need def width 4 too (15 -> 4 bits) - fine, but 2^w-1 repeated gives maxDef = 2^w-1
		}
	} else {
		types = typesFor(c.W, false)
		defs = c.Levels
	}
	page, nv, err := apiWrite(types, defs, reps)
	if err != nil {
		return viol("C07/api-write-error", "DoWrite: %v", err)
	}
	ph, hl, err := pqref.DecodePageHeader(page)
	if err != nil {
		return viol("C07/api-write-malformed", "page header written by DoWrite does not decode: %v", err)
	}
	body := page[hl:]
	if len(body) != int(ph.Compressed) || ph.Data == nil || int(ph.Data.NumValues) != len(c.Levels) {
		return viol("C07/api-write-malformed", "page header: sizes/num_values do not match (%d body bytes, header says %d; num_values %v)", len(body), ph.Compressed, ph.Data)
	}
	pos := 0
	if repeated {
		got, info, err := pqref.DecodeLevelsStrict(body, repW, len(reps))
		if err != nil {
			return viol("C07/api-write-malformed", "width %d repetition levels %s written through DoWrite: %v", repW, showLevels(reps), err)
		}
		if i, ok := levelsEqual(got, reps); !ok {
			return viol("C07/api-write-wrong", "width %d repetition levels %s written through DoWrite decode differently at %d", repW, showLevels(reps), i)
		}
		pos += info.Consumed
	}
	got, info, err := pqref.DecodeLevelsStrict(body[pos:], defW, len(defs))
	if err != nil {
		return viol("C07/api-write-malformed", "width %d definition levels %s written through DoWrite: %v", defW, showLevels(defs), err)
	}
	if i, ok := levelsEqual(got, defs); !ok {
		return viol("C07/api-write-wrong", "width %d definition levels %s written through DoWrite decode differently at %d", defW, showLevels(defs), i)
	}
	pos += info.Consumed
	if len(body)-pos != 4*nv {
		return viol("C07/api-write-malformed", "level sections end at %d of %d body bytes but %d value bytes were given", pos, len(body), 4*nv)
	}
	return nil
}

// checkAPIRead builds a page with foreign-encoded levels and reads it through OptionalField.DoRead.
func checkAPIRead(c *LevelCase, repeated bool) *Outcome {
	var types []int
	var defs, reps []uint8
	var body []byte
	if repeated {
		types = typesFor(c.W, true)
		if pqref.BitWidth(len(types)) > 4 {
			return nil
		}
		reps = c.Levels
		defs = make([]uint8, len(reps))
		for i := range defs {
			defs[i] = uint8(len(types))
		}
		rb, err := pqref.EncodeLevels(reps, c.W, c.Segs, c.Pad)
		if err != nil {
			return viol("C07/harness", "%v", err)
		}
		db, _ := pqref.EncodeLevels(defs, pqref.BitWidth(len(types)), nil, 0)
		body = append(rb, db...)
	} else {
		types = typesFor(c.W, false)
		defs = c.Levels
		db, err := pqref.EncodeLevels(defs, c.W, c.Segs, c.Pad)
		if err != nil {
			return viol("C07/harness", "%v", err)
		}
		body = db
	}
	nv := 0
	for _, d := range defs {
		if int(d) == len(types) {
			nv++
		}
	}
	vals := make([]byte, 4*nv)
	body = append(body, vals...)
	ph := &pqref.PageHeader{Type: pqref.PageData, Uncompressed: int32(len(body)), Compressed: int32(len(body)),
		Data: &pqref.DataPageHeader{NumValues: int32(len(defs)), Encoding: pqref.EncPlain, DefEnc: pqref.EncRLE, RepEnc: pqref.EncRLE}}
	page := append(ph.Encode(), body...)
	f := parquet.NewOptionalField([]string{"c"}, types, parquet.OptionalFieldUncompressed)
	rr, sizes, err := f.DoRead(bytes.NewReader(page), parquet.Page{N: len(defs), Size: len(page), Codec: sch.CompressionCodec_UNCOMPRESSED})
	if err != nil {
		return viol("C07/api-read-error", "DoRead rejects a page whose levels are a well-formed stream (width %d, runs per segmentation %v): %v", c.W, c.Segs, err)
	}
	if i, ok := levelsEqual(f.Defs, defs); !ok {
		return viol("C07/api-read-wrong", "DoRead: definition levels differ at %d (got %d values, want %d)", i, len(f.Defs), len(defs))
	}
	if repeated {
		if i, ok := levelsEqual(f.Reps, reps); !ok {
			return viol("C07/api-read-wrong", "DoRead: repetition levels differ at %d (got %d values, want %d)", i, len(f.Reps), len(reps))
		}
	}
	// (the per-page non-null counts DoRead also returns are C04's business: they matter for reading rows, not for the levels)
	_ = sizes
	rest := new(bytes.Buffer)
	rest.ReadFrom(rr)
	if rest.Len() != 4*nv {
		return viol("C07/api-read-wrong", "DoRead: %d value bytes left after the level sections, want %d", rest.Len(), 4*nv)
	}
	return nil
}

func checkC07(c *LevelCase) *Outcome {
	return guard("C07", func() *Outcome {
		for _, v := range c.Levels {
			if int(v) >= 1<<uint(c.W) {
				return viol("C07/harness", "level %d does not fit width %d", v, c.W)
			}
		}
		if o, _ := checkEncode(c); o != nil {
			return o
		}
		if o := checkDecode(c); o != nil {
			return o
		}
		if c.API && len(c.Levels) > 0 {
			for _, rep := range []bool{false, true} {
				if rep && c.Levels[0] != 0 {
					continue // a page starts at a record boundary: first repetition level is 0
				}
				if o := checkAPIWrite(c, rep); o != nil {
					return o
				}
				if o := checkAPIRead(c, rep); o != nil {
					return o
				}
			}
		}
		return nil
	})
}

// genSegs draws a legal segmentation of levels.
func genSegs(t *rapid.T, levels []uint8) []pqref.Run {
	var out []pqref.Run
	pos := 0
	n := len(levels)
	for pos < n {
		// length of the run of equal values ahead
		same := 1
		for pos+same < n && levels[pos+same] == levels[pos] {
			same++
		}
		rem := n - pos
		choice := rapid.IntRange(0, 3).Draw(t, "segKind")
		if choice == 0 || (choice == 1 && same >= 8) {
			c := rapid.IntRange(1, same).Draw(t, "rleLen")
			if rapid.Bool().Draw(t, "rleWhole") {
				c = same
			}
			out = append(out, pqref.Run{RLE: true, Count: c})
			pos += c
			continue
		}
		maxG := (rem + 7) / 8
		g := rapid.IntRange(1, maxG).Draw(t, "bpGroups")
		if maxG > 64 && rapid.IntRange(0, 2).Draw(t, "bpLong") == 0 {
			g = rapid.IntRange(64, maxG).Draw(t, "bpGroupsLong")
		}
		out = append(out, pqref.Run{RLE: false, Count: g})
		pos += 8 * g
	}
	return out
}

var runLens = []int{1, 1, 2, 3, 7, 8, 9, 15, 16, 17, 63, 64, 65, 8*63 - 1, 8 * 63, 8*63 + 1, 1000, 20000}

func genRunStructured(t *rapid.T, w int, maxVals int) []uint8 {
	var out []uint8
	nruns := rapid.IntRange(0, 24).Draw(t, "nruns")
	for i := 0; i < nruns && len(out) < maxVals; i++ {
		if len(out) > 100000 {
			break
		}
		v := uint8(rapid.IntRange(0, 1<<uint(w)-1).Draw(t, "v"))
		var l int
		if rapid.IntRange(0, 3).Draw(t, "lenKind") == 0 {
			l = rapid.IntRange(1, 40).Draw(t, "len")
		} else {
			l = rapid.SampledFrom(runLens).Draw(t, "len")
		}
		if b := rapid.IntRange(0, 99).Draw(t, "longNoise?"); b >= 40 && b < 44 {
			// a long stretch of irregular levels expanded from one word: bit-packed bodies of tens of KiB
			n := rapid.IntRange(30000, 42000).Draw(t, "noiseLen")
			if w == 4 && b < 42 {
				n = rapid.IntRange(131500, 140000).Draw(t, "hugeNoiseLen") // body beyond 64 KiB
			}
			x := rapid.Uint64().Draw(t, "noiseSeed") | 1
			for j := 0; j < n; j++ {
				x ^= x << 13
				x ^= x >> 7
				x ^= x << 17
				out = append(out, uint8(x>>32)&uint8(1<<uint(w)-1))
			}
			continue
		}
		if rapid.IntRange(0, 4).Draw(t, "noise") == 0 {
			// a stretch of non-repeating values
			for j := 0; j < l && j < 600; j++ {
				out = append(out, uint8(rapid.IntRange(0, 1<<uint(w)-1).Draw(t, "nv")))
			}
			continue
		}
		for j := 0; j < l; j++ {
			out = append(out, v)
		}
	}
	if len(out) > maxVals && len(out) < 131000 {
		out = out[:maxVals]
	}
	return out
}

func levelLabels(c *LevelCase, info *pqref.LevelInfo) (l []string, nt bool) {
	l = append(l, fmt.Sprintf("w=%d", c.W))
	var rle, bp, long, multi bool
	runs := c.Segs
	if info != nil {
		runs = append(append([]pqref.Run{}, runs...), info.Runs...)
	}
	for _, r := range runs {
		if r.RLE {
			rle = true
			if r.Count >= 64 {
				multi = true
			}
		} else {
			bp = true
			if r.Count >= 63 {
				long = true
			}
			if r.Count >= 64 {
				multi = true
			}
		}
	}
	if rle && bp {
		l = append(l, "both-run-kinds")
	}
	if long {
		l = append(l, "bitpacked-run>=63-groups")
	}
	if multi {
		l = append(l, "multi-byte-run-header")
	}
	if c.API {
		l = append(l, "via-column-api")
	}
	return l, (rle && bp) || long || multi
}

func TestC07(t *testing.T) { rapid.Check(t, propC07) }

// FuzzC07: the same property driven by Go's coverage-guided fuzzer (thorough tier).
func FuzzC07(f *testing.F) {
	fuzzSeeds(f)
	f.Fuzz(rapid.MakeFuzz(propC07))
}

func propC07(t *rapid.T) {
	maxVals := envInt("VERIF_C07_MAXVALS", 42000)
	{
		c := &LevelCase{W: rapid.IntRange(1, 4).Draw(t, "w")}
		c.Levels = genRunStructured(t, c.W, maxVals)
		c.Segs = genSegs(t, c.Levels)
		c.Pad = uint8(rapid.IntRange(0, 1<<uint(c.W)-1).Draw(t, "pad"))
		if rapid.IntRange(0, 3).Draw(t, "padZero") > 0 {
			c.Pad = 0
		}
		c.API = len(c.Levels) <= 6000
		o := checkC07(c)
		_, info := checkEncodeInfo(c)
		l, nt := levelLabels(c, info)
		record("C07", hashOf(c), nt, l, func() interface{} {
			return map[string]interface{}{"width": c.W, "levels": showLevels(c.Levels), "decode_segmentation": showRuns(c.Segs), "encoder_runs": showRuns(infoRuns(info))}
		})
		verdict(t, "C07", c, o)
	}
}

func infoRuns(i *pqref.LevelInfo) []pqref.Run {
	if i == nil {
		return nil
	}
	return i.Runs
}

func checkEncodeInfo(c *LevelCase) (o *Outcome, info *pqref.LevelInfo) {
	defer func() { recover() }()
	return checkEncode(c)
}

// TestC07Enum: every level sequence up to a length bound per width (seed independent).
func TestC07Enum(t *testing.T) {
	nsh, idx := envInt("VERIF_NSHARDS", 1), envInt("VERIF_SHARDIDX", 0)
	bounds := map[int]int{1: 18, 2: 10, 3: 7, 4: 6}
	if os.Getenv("VERIF_TIER") != "thorough" {
		bounds = map[int]int{1: 16, 2: 9, 3: 6, 4: 5}
	}
	for w := 1; w <= 4; w++ {
		var n, nt int64
		var sample []uint8
		k := 0
		for ln := 0; ln <= bounds[w]; ln++ {
			total := 1 << uint(w*ln)
			for x := 0; x < total; x++ {
				k++
				if k%nsh != idx {
					continue
				}
				lv := make([]uint8, ln)
				for i := range lv {
					lv[i] = uint8((x >> uint(i*w)) & (1<<uint(w) - 1))
				}
				c := &LevelCase{W: w, Levels: lv, API: ln > 0 && x%7 == 0}
				// decode side: two fixed segmentations - all bit-packed (default) and maximal RLE runs
				o := checkC07(c)
				if o == nil && ln > 0 {
					c2 := &LevelCase{W: w, Levels: lv, Segs: rleSegs(lv)}
					o = guard("C07", func() *Outcome { return checkDecode(c2) })
					if o != nil {
						c = c2
					}
				}
				n++
				if ln >= 8 {
					nt++
					sample = lv
				}
				if o != nil {
					if isKnown("C07", o.Key) {
						continue
					}
					saveFail("C07", c, o)
					t.Fatalf("C07 violated: %s", o.Error())
				}
			}
		}
		s := sample
		recordX(statLine{P: "C07", H: fmt.Sprintf("enum-w%d-%d", w, idx), N: n, DN: nt, L: []string{fmt.Sprintf("enum/w=%d/len<=%d", w, bounds[w])}}, func() interface{} {
			return map[string]interface{}{"width": w, "levels": s, "note": "one of the exhaustively enumerated sequences"}
		})
	}
}

func rleSegs(lv []uint8) []pqref.Run {
	var out []pqref.Run
	for i := 0; i < len(lv); {
		j := i
		for j < len(lv) && lv[j] == lv[i] {
			j++
		}
		out = append(out, pqref.Run{RLE: true, Count: j - i})
		i = j
	}
	return out
}

func TestReplayC07(t *testing.T) {
	p := os.Getenv("VERIF_REPLAY")
	if p == "" {
		t.Skip()
	}
	var c LevelCase
	if err := loadReplay(p, &c); err != nil {
		t.Fatal(err)
	}
	replayResult(t, "C07", checkC07(&c))
}

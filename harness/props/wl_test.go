package props

import (
	"bytes"
	"fmt"
	"reflect"

	"pgregory.net/rapid"

	"verifharness/fx"
	"verifharness/vt"
)

// Workload is a record sequence with a partition into batches and writer options.
type Workload struct {
	Fixture   string    `json:"fixture"`
	Records   []*vt.Val `json:"records"`
	Batches   []int     `json:"batches"`
	PageSize  int       `json:"page_size"`
	Codec     int       `json:"codec"`
	Pending   int       `json:"pending_at_close,omitempty"` // C02/C09: records added after the last Write, before Close (never written)
	patterned bool
}

type wlCfg struct {
	fixtures []string
	maxRecs  int
	gen      vt.GenCfg
	codecs   []int
	// bigPct: percentage of cases that are "big": either one page of 2000..5000 records (page bodies beyond 32/64 KiB)
	// or 300..600 row groups of 1..2 records (footer beyond 64 KiB)
	bigPct int
	// noPatterns switches the patterned workloads off (fault-enumeration checks keep their workloads small)
	noPatterns bool
}

var patCounts = []int{1, 2, 7, 8, 9, 15, 16, 17, 31, 32, 33, 63, 64, 65, 72, 127, 128, 129, 255, 256, 257, 504, 505, 511, 512, 513, 1000, 1001, 1023, 1024, 1025}
var patPeriods = []int{1, 2, 3, 7, 8, 9, 16, 64}

// genPatterned fills w with records cycling through a small pool with an exact period.
func genPatterned(t *rapid.T, w *Workload, f *fx.Fixture, cfg wlCfg) {
	g := cfg.gen
	g.LongList, g.LongStr = 0, 0
	switch rapid.IntRange(0, 3).Draw(t, "patNulls") {
	case 0:
		g.NullPct = 0
	case 1:
		g.NullPct = 100
	}
	// fixed list length for the whole workload (lists of exactly L elements), sometimes
	fixedLen := -1
	if rapid.Bool().Draw(t, "patFixedLen") {
		fixedLen = rapid.SampledFrom([]int{0, 1, 7, 8, 9, 63, 64, 65}).Draw(t, "patLen")
	}
	pool := rapid.IntRange(1, 3).Draw(t, "patPool")
	var base []*vt.Val
	for i := 0; i < pool; i++ {
		r := vt.GenRecord(t, f.Root, g)
		if fixedLen >= 0 {
			setListLens(f.Root, r, fixedLen)
		}
		base = append(base, r)
	}
	period := rapid.SampledFrom(patPeriods).Draw(t, "patPeriod")
	n := rapid.SampledFrom(patCounts).Draw(t, "patCount")
	max := cfg.maxRecs * 8
	if len(f.Root.Columns()) > 12 && max > 300 {
		max = 300
	}
	if max > 1100 {
		max = 1100
	}
	for n > max {
		n /= 2
	}
	for i := 0; i < n; i++ {
		// record i is pool[(i / period) % pool]: runs of exactly `period` identical records
		w.Records = append(w.Records, vt.Clone(base[(i/period)%pool]))
	}
	switch rapid.IntRange(0, 3).Draw(t, "patPage") {
	case 0:
		w.PageSize = n
	case 1:
		if n > 1 {
			w.PageSize = n - 1
		}
	case 2:
		w.PageSize = rapid.SampledFrom([]int{8, 64, 504, 512, 1000}).Draw(t, "patPageSize")
	}
	if w.PageSize < 1 {
		w.PageSize = 1
	}
	if rapid.Bool().Draw(t, "patOneBatch") {
		w.Batches = []int{n}
	} else {
		a := rapid.SampledFrom([]int{1, 8, 64, n / 2, n - 1}).Draw(t, "patSplit")
		if a < 1 || a >= n {
			w.Batches = []int{n}
		} else {
			w.Batches = []int{a, n - a}
		}
	}
}

// setListLens makes every list in the record exactly ln long (elements are copies of the first one or fresh zero values).
func setListLens(n *vt.Node, v *vt.Val, ln int) {
	var inner func(n *vt.Node, v *vt.Val)
	inner = func(n *vt.Node, v *vt.Val) {
		if n.Kind != vt.Group {
			return
		}
		for i, c := range n.Children {
			setListLens(c, v.F[i], ln)
		}
	}
	switch n.Rep {
	case vt.Optional:
		if !v.Null {
			inner(n, v)
		}
	case vt.Repeated:
		var proto *vt.Val
		if len(v.L) > 0 {
			proto = v.L[0]
		} else {
			proto = vt.Nth(&vt.Node{Kind: n.Kind, Children: n.Children, Rep: vt.Required, Name: n.Name}, 0)
			if n.Kind == vt.String {
				proto.S = vt.Bytes{}
			}
		}
		inner(n, proto)
		// nested lists multiply: below the first repeated level keep at most 2 elements
		v.L = nil
		for i := 0; i < ln; i++ {
			v.L = append(v.L, vt.Clone(proto))
		}
		sub := ln
		if sub > 2 {
			sub = 2
		}
		for _, e := range v.L {
			if n.Kind == vt.Group {
				for i, c := range n.Children {
					shrinkLists(c, e.F[i], sub)
				}
			}
		}
	default:
		inner(n, v)
	}
}

func shrinkLists(n *vt.Node, v *vt.Val, max int) {
	switch n.Rep {
	case vt.Repeated:
		if len(v.L) > max {
			v.L = v.L[:max]
		}
		for _, e := range v.L {
			if n.Kind == vt.Group {
				for i, c := range n.Children {
					shrinkLists(c, e.F[i], max)
				}
			}
		}
	case vt.Optional:
		if !v.Null && n.Kind == vt.Group {
			for i, c := range n.Children {
				shrinkLists(c, v.F[i], max)
			}
		}
	default:
		if n.Kind == vt.Group {
			for i, c := range n.Children {
				shrinkLists(c, v.F[i], max)
			}
		}
	}
}

var pageSizes = []int{1, 2, 3, 4, 5, 6, 7, 8, 9, 10, 11, 12, 13, 14, 15, 16, 17, 23, 24, 25, 31, 32, 33, 63, 64, 65, 100, 1000}

func genWorkload(t *rapid.T, cfg wlCfg) *Workload {
	w := &Workload{}
	w.Fixture = rapid.SampledFrom(cfg.fixtures).Draw(t, "fixture")
	f := fx.Get(w.Fixture)
	codecs := cfg.codecs
	if codecs == nil {
		codecs = []int{fx.Uncompressed, fx.Snappy, fx.Gzip}
	}
	w.Codec = rapid.SampledFrom(codecs).Draw(t, "codec")
	w.PageSize = rapid.SampledFrom(pageSizes).Draw(t, "pageSize")
	// (rapid biases integer draws towards the ends of a range; a window in the middle is hit with about the nominal probability)
	if b := rapid.IntRange(0, 99).Draw(t, "big?"); cfg.bigPct > 0 && b >= 50 && b < 50+cfg.bigPct {
		g := cfg.gen
		g.LongList, g.MaxList, g.LongStr, g.MaxStr, g.UniformStr = 0, 2, 0, 48, true
		g.NullPct = rapid.SampledFrom([]int{0, 33, 100}).Draw(t, "bigNullPct") // 0 / 100: level runs as long as the page
		if fx.Has("big") {
			w.Fixture = "big"
			f = fx.Get("big")
		}
		if rapid.Bool().Draw(t, "bigKind") {
			// one big page
			n := rapid.IntRange(2000, 4000).Draw(t, "bigN")
			mib := false
			switch rapid.IntRange(0, 5).Draw(t, "bigger") {
			case 2:
				n = rapid.IntRange(8200, 9000).Draw(t, "biggerN") // level runs beyond 8192 (three-byte run headers)
				g.MaxList = 12                                    // and level streams of tens of thousands of 2-bit levels
			case 3:
				// exactly 4096 / 8192 records in one page: fixed-width pages of exactly 32 KiB x m
				n = rapid.SampledFrom([]int{4096, 8192}).Draw(t, "exactN")
			case 4:
				// string pages beyond 1 MiB (4200..4800 strings of up to 900 bytes in one page)
				n = rapid.IntRange(4200, 4800).Draw(t, "mibN")
				g.MaxStr = 900
				mib = true
			}
			// page size 0 = the writer's default (MaxPageSize not passed): 1000 records per page
			w.PageSize = rapid.SampledFrom([]int{10000, 10000, 1000, 700, 0}).Draw(t, "bigPage")
			if mib {
				w.PageSize = 10000
			}
			if n == 4096 || n == 8192 {
				w.PageSize = n
			}
			for i := 0; i < n; i++ {
				w.Records = append(w.Records, vt.GenRecord(t, f.Root, g))
			}
			w.Batches = []int{n}
			if rapid.Bool().Draw(t, "bigTwoGroups") {
				w.Batches = []int{n - 7, 7}
			}
		} else {
			// very many row groups
			n := rapid.IntRange(300, 600).Draw(t, "manyGroups")
			for i := 0; i < n; i++ {
				k := rapid.IntRange(1, 2).Draw(t, "k")
				for j := 0; j < k; j++ {
					w.Records = append(w.Records, vt.GenRecord(t, f.Root, g))
				}
				w.Batches = append(w.Batches, k)
			}
		}
		return w
	}
	// patterned workloads: what independent random records (almost) never are - a few distinct records repeated
	// with an exact period, an exact count around a power of two / a level-group boundary, a page size tied to the count
	if b := rapid.IntRange(0, 99).Draw(t, "patterned?"); !cfg.noPatterns && b >= 20 && b < 34 {
		genPatterned(t, w, f, cfg)
		w.patterned = true
		return w
	}
	var n int
	switch rapid.IntRange(0, 9).Draw(t, "sizeClass") {
	case 0, 1, 2, 3, 4, 5:
		n = rapid.IntRange(0, 12).Draw(t, "n")
	case 6, 7, 8:
		n = rapid.IntRange(13, 60).Draw(t, "n")
	default:
		lo := 61
		if cfg.maxRecs < lo {
			lo = cfg.maxRecs / 2
		}
		n = rapid.IntRange(lo, cfg.maxRecs).Draw(t, "n")
	}
	if n > cfg.maxRecs {
		n = cfg.maxRecs
	}
	for i := 0; i < n; i++ {
		w.Records = append(w.Records, vt.GenRecord(t, f.Root, cfg.gen))
	}
	// partition into non-empty batches
	rem := n
	for rem > 0 {
		var b int
		if rapid.IntRange(0, 3).Draw(t, "batchAll") == 0 {
			b = rem
		} else {
			b = rapid.IntRange(1, rem).Draw(t, "batch")
		}
		w.Batches = append(w.Batches, b)
		rem -= b
	}
	return w
}

func (w *Workload) labels() []string {
	var l []string
	l = append(l, "fixture="+w.Fixture, "codec="+fx.CodecNames[w.Codec])
	if len(w.Batches) >= 2 {
		l = append(l, "rowgroups>=2")
	}
	mp := false
	for _, b := range w.Batches {
		if b > w.effPage() {
			mp = true
		}
		if b == w.effPage() || b == w.effPage()+1 || b == 2*w.effPage() {
			l = append(l, "batch=k*page(+1)")
		}
	}
	if mp {
		l = append(l, "pages>=2")
	}
	if len(w.Records) == 0 {
		l = append(l, "empty")
	}
	if w.patterned {
		l = append(l, "patterned")
	}
	if len(w.Batches) >= 300 {
		l = append(l, "big:>=300-row-groups")
	}
	if w.Fixture == "big" && len(w.Batches) <= 2 {
		l = append(l, fmt.Sprintf("big:2000..4000-records-page-size-%d", w.PageSize))
	}
	return l
}

// effPage is the page size in effect (0 means the writer's documented default of 1000).
func (w *Workload) effPage() int {
	if w.PageSize <= 0 {
		return 1000
	}
	return w.PageSize
}

func (w *Workload) nontrivial() bool {
	if len(w.Records) < 2 {
		return false
	}
	if len(w.Batches) >= 2 {
		return true
	}
	for _, b := range w.Batches {
		if b > w.effPage() {
			return true
		}
	}
	return false
}

func (w *Workload) sample() interface{} {
	f := fx.Get(w.Fixture)
	var recs []string
	for i, r := range w.Records {
		if i >= 3 {
			recs = append(recs, fmt.Sprintf("...(%d records)", len(w.Records)))
			break
		}
		recs = append(recs, vt.Render(f.Root, r))
	}
	return map[string]interface{}{"fixture": w.Fixture, "shape": f.Root.Notation(), "codec": fx.CodecNames[w.Codec], "page_size": w.PageSize, "batches": w.Batches, "records": recs}
}

// writeWorkload runs the writer history "for each batch: Add..., Write; Close"
// and returns the bytes handed to the sink. If mutate is set, every record's
// reachable memory is overwritten right after Add.
func writeWorkload(w *Workload, prop string, mutate bool) ([]byte, *Outcome) {
	f := fx.Get(w.Fixture)
	var buf bytes.Buffer
	pw, err := f.NewWriter(&buf, w.PageSize, w.Codec)
	if err != nil {
		return nil, viol(prop+"/writer-error", "NewParquetWriter: %v", err)
	}
	i := 0
	for bi, b := range w.Batches {
		for j := 0; j < b; j++ {
			gv := vt.Build(f.Root, w.Records[i], true)
			pw.Add(gv.Interface())
			if mutate {
				vt.Mutate(f.Root, gv)
			}
			i++
		}
		if err := pw.Write(); err != nil {
			return nil, viol(prop+"/writer-error", "Write #%d: %v", bi, err)
		}
	}
	for j := 0; j < w.Pending; j++ {
		pw.Add(vt.Build(f.Root, w.Records[i], true).Interface())
		i++
	}
	if err := pw.Close(); err != nil {
		return nil, viol(prop+"/writer-error", "Close: %v", err)
	}
	return buf.Bytes(), nil
}

// readAll reads a file with the generated reader following the README loop,
// scanning each row into a fresh struct. It returns the records, the Go
// values they were scanned into, and the reader (for Rows/Error).
func readAll(f *fx.Fixture, rs interface {
	Read([]byte) (int, error)
	Seek(int64, int) (int64, error)
}, limit int) (recs []*vt.Val, govals []reflect.Value, rd fx.Reader, err error) {
	rd, err = f.NewReader(rs)
	if err != nil {
		return nil, nil, nil, err
	}
	for rd.Next() {
		p := reflect.New(f.Type)
		rd.Scan(p.Interface())
		v, _ := vt.Extract(f.Root, p.Elem())
		recs = append(recs, v)
		govals = append(govals, p)
		if len(recs) > limit {
			break
		}
	}
	return recs, govals, rd, nil
}

package props

import (
	"bytes"
	"os"
	"strings"
	"testing"

	"pgregory.net/rapid"

	"verifharness/fx"
	"verifharness/pqref"
	"verifharness/vt"
)

var injectKinds = []string{"dict-plain", "dict-rle", "dict-fallback", "index-page", "v2", "enc-bss", "enc-rle-bool", "enc-delta-binary", "enc-delta-length", "enc-delta-bytearray",
	"lvl-bitpacked-def", "lvl-bitpacked-rep", "codec-lzo", "codec-brotli", "codec-lz4", "codec-zstd", "codec-lz4raw"}

func kindApplies(kind string, col vt.Column) bool {
	k := col.Leaf.Kind
	switch kind {
	case "enc-bss":
		return k == vt.Float32 || k == vt.Float64
	case "enc-rle-bool":
		return k == vt.Bool
	case "enc-delta-binary":
		return k == vt.Int32 || k == vt.Int64 || k == vt.Uint32 || k == vt.Uint64
	case "enc-delta-length", "enc-delta-bytearray":
		return k == vt.String
	case "lvl-bitpacked-def":
		return col.MaxDef > 0
	case "lvl-bitpacked-rep":
		return col.MaxRep > 0
	}
	return true
}

func needsValue(kind string) bool {
	return len(kind) > 4 && kind[:4] == "enc-"
}

// pageHasValue reports whether the page (by record range) of a column holds a non-null value.
func pageHasValue(col vt.Column, recs []*vt.Val) bool {
	for _, r := range recs {
		for _, t := range pqref.Shred(col, r) {
			if t.Val != nil {
				return true
			}
		}
	}
	return false
}

func checkC18(c *ForeignCase) (o *Outcome, discarded bool) {
	o = guard("C18", func() *Outcome {
		f := fx.Get(c.Fixture)
		if c.Phys.Inject == nil {
			return viol("C18/harness", "case without injection")
		}
		// the unmodified base file must read correctly, otherwise this is C04's matter
		base := *c.Phys
		base.Inject = nil
		bfile, err := pqref.WriteFile(f.Root, c.Batches, &base)
		if err != nil {
			return viol("C18/harness", "foreign writer (base): %v", err)
		}
		n := 0
		for _, b := range c.Batches {
			n += len(b)
		}
		func() {
			defer func() {
				if r := recover(); r != nil {
					discarded = true
				}
			}()
			recs, _, rd, err := readAll(f, bytes.NewReader(bfile), n+5)
			if err != nil || rd.Error() != nil || len(recs) != n {
				discarded = true
			}
		}()
		if discarded {
			return nil
		}
		file, err := pqref.WriteFile(f.Root, c.Batches, c.Phys)
		if err != nil {
			return viol("C18/harness", "foreign writer: %v", err)
		}
		if bytes.Equal(file, bfile) {
			return viol("C18/harness", "injection %+v did not change the file", *c.Phys.Inject)
		}
		kind := c.Phys.Inject.Kind
		var recs []*vt.Val
		var rd fx.Reader
		if po := guard("C18/"+kind, func() *Outcome {
			var err error
			recs, _, rd, err = readAll(f, bytes.NewReader(file), n+5)
			if err != nil {
				rd = nil
			}
			return nil
		}); po != nil {
			po.Msg = "reading a file with an unsupported feature (" + kind + ") panicked: " + po.Msg
			return po
		}
		if rd == nil {
			return nil // constructor refused
		}
		if rd.Error() != nil {
			return nil
		}
		return viol("C18/"+kind+"/accepted", "file with unsupported feature %s in row group %d column %d page %d was read without any error (%d rows delivered)",
			kind, c.Phys.Inject.RG, c.Phys.Inject.Col, c.Phys.Inject.Page, len(recs))
	})
	return
}

var c18Fixtures = []string{"flat24", "nest"}

func TestC18(t *testing.T) { rapid.Check(t, propC18) }

// FuzzC18: the same property driven by Go's coverage-guided fuzzer (thorough tier).
func FuzzC18(f *testing.F) {
	fuzzSeeds(f)
	f.Fuzz(rapid.MakeFuzz(propC18))
}

func propC18(t *rapid.T) {
	cfg := foreignCfg{fixtures: fixturesFromEnv(c18Fixtures), maxRecs: envInt("VERIF_MAXRECS", 50), gen: vt.DefaultGen, plain: true}
	cfg.gen.NullPct = 20
	cfg.gen.LongStr = 20000 // page headers (min/max statistics) beyond 16 KiB now and then
	{
		c := &ForeignCase{Fixture: rapid.SampledFrom(cfg.fixtures).Draw(t, "fixture")}
		f := fx.Get(c.Fixture)
		cols := f.Root.Columns()
		// mostly values, sometimes mostly nulls (chunks and pages without a single value)
		cfg.gen.NullPct = rapid.SampledFrom([]int{20, 20, 20, 90}).Draw(t, "nullPct")
		c.Batches = genBatches(t, f, cfg)
		// two thirds of the files are plain apart from the injected feature; one third also carries the optional, ignorable footer
		// and chunk metadata other writers add (chunk statistics with null counts, key/value data, encoding stats, mixed codecs,
		// legacy level labels) - all of which C04 shows the reader accepts
		c.Phys = genPhys(t, f.Root, c.Batches, rapid.IntRange(0, 2).Draw(t, "richMeta") != 0)
		kinds := injectKinds
		if k := os.Getenv("VERIF_C18_KINDS"); k != "" {
			kinds = strings.Split(k, ",")
		}
		kind := rapid.SampledFrom(kinds).Draw(t, "kind")
		var ok []int
		for ci, col := range cols {
			if kindApplies(kind, col) {
				ok = append(ok, ci)
			}
		}
		if len(ok) == 0 {
			t.Skip("no applicable column")
		}
		inj := &pqref.Inject{Kind: kind}
		inj.RG = rapid.IntRange(0, len(c.Batches)-1).Draw(t, "injRG")
		inj.Col = rapid.SampledFrom(ok).Draw(t, "injCol")
		pages := c.Phys.Chunks[inj.RG][inj.Col].Pages
		inj.Page = rapid.IntRange(0, len(pages)-1).Draw(t, "injPage")
		if needsValue(kind) {
			// move to a page that holds a value, if there is one
			found := false
			for try := 0; try < len(pages) && !found; try++ {
				pi := (inj.Page + try) % len(pages)
				from := 0
				for _, p := range pages[:pi] {
					from += p.Records
				}
				if pageHasValue(cols[inj.Col], c.Batches[inj.RG][from:from+pages[pi].Records]) {
					inj.Page = pi
					found = true
				}
			}
			if !found {
				t.Skip("no page with a value in that chunk")
			}
		}
		c.Phys.Inject = inj
		o, disc := checkC18(c)
		labels := []string{"fixture=" + c.Fixture, "kind=" + kind}
		nt := inj.Col > 0 || inj.Page > 0 || inj.RG > 0
		if inj.RG > 0 {
			labels = append(labels, "non-first-row-group")
		}
		if inj.Page > 0 {
			labels = append(labels, "non-first-page")
		}
		if inj.Col > 0 {
			labels = append(labels, "non-first-column")
		}
		if disc {
			labels = append(labels, "discarded-base-unreadable")
			nt = false
		}
		record("C18", hashOf(c), nt, labels, c.sample)
		verdict(t, "C18", c, o)
	}
}

func TestReplayC18(t *testing.T) {
	p := os.Getenv("VERIF_REPLAY")
	if p == "" {
		t.Skip()
	}
	var c ForeignCase
	if err := loadReplay(p, &c); err != nil {
		t.Fatal(err)
	}
	o, _ := checkC18(&c)
	replayResult(t, "C18", o)
}

// Package fx is the registry through which property code reaches the
// generated readers/writers of the fixture and lab packages. Each fixture
// package contains types.go (hand-written struct Rec), parquet.go (generated
// at check time by the parquetgen built from /repo's working tree) and
// adapter.go (instantiated from adapter.go.tmpl), which registers here.
package fx

import (
	"fmt"
	"io"
	"reflect"
	"sort"

	"verifharness/vt"
)

const (
	Uncompressed = 0
	Snappy       = 1
	Gzip         = 2
	DefaultCodec = -1 // pass no codec option at all
)

var CodecNames = map[int]string{Uncompressed: "uncompressed", Snappy: "snappy", Gzip: "gzip", DefaultCodec: "default"}

type Writer interface {
	Add(rec interface{}) // rec is a Rec value (not pointer)
	Write() error
	Close() error
}

type Reader interface {
	Next() bool
	Scan(into interface{}) // into is *Rec
	Rows() int64
	Error() error
}

type Fixture struct {
	Name string
	Type reflect.Type
	Root *vt.Node
	// pageSize <= 0 means "do not pass MaxPageSize"
	NewWriter func(w io.Writer, pageSize int, codec int) (Writer, error)
	NewReader func(r io.ReadSeeker) (Reader, error)
	// Pollute puts n dirty buffers into the generated package's buffer pool.
	Pollute func(junk []byte, n int)
}

// ShareOpts makes the fixtures' NewWriter pass one shared options slice (with spare capacity) per configuration to every
// writer instead of a fresh slice per writer. Only set by single-goroutine engines (C13 api / reentrant).
var ShareOpts bool

var reg = map[string]*Fixture{}

func Register(f *Fixture) {
	root, err := vt.FromType(f.Type)
	if err != nil {
		panic(fmt.Sprintf("fixture %s: %v", f.Name, err))
	}
	f.Root = root
	reg[f.Name] = f
}

func Get(name string) *Fixture {
	f, ok := reg[name]
	if !ok {
		panic("no such fixture: " + name)
	}
	return f
}

func Has(name string) bool { _, ok := reg[name]; return ok }

func Names() []string {
	var out []string
	for k := range reg {
		out = append(out, k)
	}
	sort.Strings(out)
	return out
}

package deep

// Rec nests groups three levels deep with required / optional / repeated groups
// in several positions; it stresses the footer's schema tree (num_children).

type L3 struct {
	P int64   `parquet:"p"`
	Q *string `parquet:"q"`
}

type L2 struct {
	A  int32 `parquet:"a"`
	In L3    `parquet:"in"`
	Z  *bool `parquet:"z"`
}

type M2 struct {
	In *L3    `parquet:"in"`
	W  uint32 `parquet:"w"`
}

type L1 struct {
	M  L2    `parquet:"m"`
	Om *M2   `parquet:"om"`
	K  int64 `parquet:"k"`
}

type Rec struct {
	ID  int32   `parquet:"id"`
	Top L1      `parquet:"top"`
	Opt *L1     `parquet:"opt"`
	End float64 `parquet:"end"`
}

package samename

// Rec has groups with the same name under different parents.

type Pt struct {
	X int32  `parquet:"x"`
	Y *int32 `parquet:"y"`
}

type A struct {
	Pos  Pt     `parquet:"pos"`
	Name string `parquet:"name"`
}

type B struct {
	Name *string `parquet:"name"`
	Pos  *Pt     `parquet:"pos"`
}

type Rec struct {
	A   A     `parquet:"a"`
	B   B     `parquet:"b"`
	Pos Pt    `parquet:"pos"`
	N   int64 `parquet:"n"`
}

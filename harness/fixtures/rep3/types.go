package rep3

// Rec nests lists three deep: maximum repetition level 3 (2 bits), maximum definition level 3.
// (A richer three-level shape - several siblings per level - is one of the shapes parquetgen
// mis-generates, see the C05 catalogue; this chain is healthy on the pinned tree.)

type L3 struct {
	V []int32 `parquet:"v"`
}

type L2 struct {
	Cs []L3 `parquet:"cs"`
}

type Rec struct {
	ID int64 `parquet:"id"`
	Bs []L2  `parquet:"bs"`
}

package stats2

// Optional columns of the same template family at different definition depths, and an optional
// string below a repeated group: per-column statistics must not share anything between columns.

type Prefs struct {
	Newsletter *bool   `parquet:"newsletter"`
	Note       *string `parquet:"note"`
	Score      *int64  `parquet:"score"`
}

type Item struct {
	SKU  string  `parquet:"sku"`
	Note *string `parquet:"note"`
	Qty  *int64  `parquet:"qty"`
	Gift *bool   `parquet:"gift"`
}

type Rec struct {
	Active *bool   `parquet:"active"`
	Coupon *string `parquet:"coupon"`
	Total  *int64  `parquet:"total"`
	Prefs  *Prefs  `parquet:"prefs"`
	Items  []Item  `parquet:"items"`
}

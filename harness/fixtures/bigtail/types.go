package bigtail

// Rec ends with a required string column: in a file with one large page per column the largest page
// payload is the last thing the reader fetches (nothing after it can notice a misaligned source).
type Rec struct {
	ID int64  `parquet:"id"`
	S  string `parquet:"s"`
}

package reqopt

// Required (non-pointer) groups above optional (pointer) groups above repeated leaves:
// the position of a field in its path and its definition level differ (doc -> meta -> links -> forward).

type Links struct {
	Forward  []int64  `parquet:"forward"`
	Backward []string `parquet:"backward"`
}

type Meta struct {
	Links *Links `parquet:"links"`
	Lang  string `parquet:"lang"`
}

type Wrap struct {
	Info Meta     `parquet:"info"`
	Tags []string `parquet:"tags"`
	N    *int32   `parquet:"n"`
}

type Rec struct {
	ID   int32 `parquet:"id"`
	Meta Meta  `parquet:"meta"`
	W    *Wrap `parquet:"w"`
	Out  Wrap  `parquet:"out"`
}

package dupleaf

// One element name used by several leaves with different repetition types: a repeated top-level column
// "tags" and, later in the schema, a required leaf "meta.tags"; an optional top-level "owner" after a
// required "meta.owner". Anything looked up by element name instead of by full path confuses them
// (C16, C02, C03).
type Meta struct {
	Owner string `parquet:"owner"`
	Tags  string `parquet:"tags"`
}

type Rec struct {
	ID    int64    `parquet:"id"`
	Tags  []string `parquet:"tags"`
	Meta  Meta     `parquet:"meta"`
	Owner *string  `parquet:"owner"`
}

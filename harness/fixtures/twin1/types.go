package twin1

// twin1 and twin2 have identical column paths, in the same order, with different
// physical types and repetition: anything cached per "column names" instead of per
// instance shows up as interference between instances of the two types (C13).
type Rec struct {
	ID    int32   `parquet:"id"`
	Kind  string  `parquet:"kind"`
	Score float32 `parquet:"score"`
	Tags  []int32 `parquet:"tags"`
}

package rep3b

// Three levels of repeated groups whose innermost group has several leaves (order -> shipments -> parcels -> items),
// with a required leaf after each nested list.

type Item struct {
	SKU  string  `parquet:"sku"`
	Qty  int32   `parquet:"qty"`
	Note *string `parquet:"note"`
}

type Parcel struct {
	Items  []Item  `parquet:"items"`
	Weight float64 `parquet:"weight"`
}

type Shipment struct {
	Parcels []Parcel `parquet:"parcels"`
	Carrier string   `parquet:"carrier"`
}

type Rec struct {
	ID        int64      `parquet:"id"`
	Shipments []Shipment `parquet:"shipments"`
}

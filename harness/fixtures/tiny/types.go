package tiny

// Rec is the smallest fixture with one column of each field family.
type Rec struct {
	ID   int32   `parquet:"id"`
	Name *string `parquet:"name"`
	Flag []bool  `parquet:"flag"`
}

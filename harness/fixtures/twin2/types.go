package twin2

// see twin1
type Rec struct {
	ID    int64    `parquet:"id"`
	Kind  *string  `parquet:"kind"`
	Score *float64 `parquet:"score"`
	Tags  []string `parquet:"tags"`
}

package big

// Rec is used for the "big" workloads (one page of thousands of records, or hundreds of row groups):
// a required and an optional string, an int64, a list and a required bool keep page bodies beyond 32/64 KiB cheap to produce.
type Rec struct {
	ID int64   `parquet:"id"`
	S  string  `parquet:"s"`
	O  *string `parquet:"o"`
	L  []int64 `parquet:"l"`
	B  bool    `parquet:"b"`
}

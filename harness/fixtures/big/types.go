package big

// Rec is used for the "big" workloads (one page of thousands of records, or hundreds of row groups):
// a required and an optional string, an int64, a list and a required bool keep page bodies beyond 32/64 KiB cheap to produce.
// Elem gives the fixture a column with 2-bit definition levels (g.v: repeated group, optional leaf).
type Elem struct {
	K int32  `parquet:"k"`
	V *int32 `parquet:"v"`
}

type Rec struct {
	ID int64   `parquet:"id"`
	S  string  `parquet:"s"`
	O  *string `parquet:"o"`
	L  []int64 `parquet:"l"`
	B  bool    `parquet:"b"`
	G  []Elem  `parquet:"g"`
}

package collide

// Column paths whose concatenation without a separator collides (a.bc vs ab.c, user.name vs username)
// while the Go field names do not: distinct groups must stay distinct in the footer schema tree (C02).
// (The Go field names are kept collision-free on purpose: parquetgen builds function names by
// concatenating Go field names, and User.Name.Value next to UserName.Value does not compile - that
// loud generator finding is catalogued under C05.)

type Inner1 struct {
	X int32 `parquet:"x"`
}

type Alpha struct {
	Beta Inner1 `parquet:"bc"`
	Z    *bool  `parquet:"z"`
}

type Inner2 struct {
	Y float64 `parquet:"y"`
}

type Gamma struct {
	Delta Inner2 `parquet:"c"`
}

type Who struct {
	ID    int32  `parquet:"id"`
	Value string `parquet:"value"`
}

type First struct {
	Who    Who   `parquet:"name"`
	Length int64 `parquet:"length"`
}

type Second struct {
	Text *string `parquet:"value"`
	Len  int32   `parquet:"length"`
}

type Rec struct {
	First  First  `parquet:"user"`
	Second Second `parquet:"username"`
	Alpha  Alpha  `parquet:"a"`
	Gamma  *Gamma `parquet:"ab"`
	// a column whose own name contains the path separator: one schema leaf "geo.lat", path_in_schema ["geo.lat"]
	Lat *float64 `parquet:"geo.lat"`
}

package nest

// Shapes modelled on the repository's own Person/Document test types:
// embedded struct, required group, optional group holding a repeated group,
// repeated group of (required, optional) leaves, repeated inside repeated,
// one dash-tagged and one unexported field.

type Being struct {
	ID   int32  `parquet:"id"`
	Name string `parquet:"name"`
	Age  *int32 `parquet:"age"`
}

type Skill struct {
	Name       string `parquet:"name"`
	Difficulty string `parquet:"difficulty"`
}

type Hobby struct {
	Name       string  `parquet:"name"`
	Difficulty *int32  `parquet:"difficulty"`
	Skills     []Skill `parquet:"skills"`
}

type Link struct {
	Backward []int64 `parquet:"backward"`
	Forward  []int64 `parquet:"forward"`
}

type Language struct {
	Code    string  `parquet:"code"`
	Country *string `parquet:"country"`
}

type Name struct {
	Languages []Language `parquet:"languages"`
	URL       *string    `parquet:"url"`
}

type Home struct {
	Zip  uint32  `parquet:"zip"`
	Cold bool    `parquet:"cold"`
	Lat  float64 `parquet:"lat"`
}

type Rec struct {
	Being
	Happiness int64   `parquet:"happiness"`
	Keen      *bool   `parquet:"keen"`
	Secret    string  `parquet:"-"`
	Home      Home    `parquet:"home"`
	Hobby     *Hobby  `parquet:"hobby"`
	Friends   []Being `parquet:"friends"`
	Links     *Link   `parquet:"link"`
	Names     []Name  `parquet:"names"`
	hidden    int64
	Sleepy    bool
}

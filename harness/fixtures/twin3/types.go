package twin3

// twin3 has the column paths AND the repetition types of twin1 and differs only in the physical types:
// anything cached per "column names + optionality" instead of per instance (a process-wide schema cache)
// shows up as one type's footer carrying the other's physical types (C13).
type Rec struct {
	ID    int64   `parquet:"id"`
	Kind  string  `parquet:"kind"`
	Score float64 `parquet:"score"`
	Tags  []int64 `parquet:"tags"`
}

package pqref

import (
	"bytes"
	"compress/gzip"
	"encoding/binary"
	"fmt"
	"hash/crc32"

	"github.com/golang/snappy"

	"verifharness/vt"
)

// PagePhys fixes the physical choices for one data page.
type PagePhys struct {
	Records int   `json:"records"`            // records in this page (>= 1)
	RepSegs []Run `json:"rep_segs,omitempty"` // nil = one bit-packed run
	DefSegs []Run `json:"def_segs,omitempty"`
	Pad     uint8 `json:"pad,omitempty"`    // padding value of a final short bit-packed group (def and rep)
	Stats   int   `json:"stats,omitempty"`  // 0 none, 1 null_count only, 2 full (min_value/max_value), 3 legacy min/max too
	Snappy  int   `json:"snappy,omitempty"` // 0 golang/snappy, 1 literal-only (chunked), 2 naive copies
	CRC     bool  `json:"crc,omitempty"`
}

// ChunkPhys fixes the physical choices for one column chunk.
type ChunkPhys struct {
	Codec        int32      `json:"codec"`
	Pages        []PagePhys `json:"pages"`
	MetaStats    bool       `json:"meta_stats,omitempty"`
	EncStats     bool       `json:"enc_stats,omitempty"`
	KV           bool       `json:"kv,omitempty"`
	LegacyLabels bool       `json:"legacy_labels,omitempty"` // label absent level streams BIT_PACKED (only honoured when the column has no such levels)
	ZeroOffsets  bool       `json:"zero_offsets,omitempty"`  // write dictionary_page_offset = 0 and index_page_offset = 0 although the chunk has neither page (as older writers do)
}

// Inject describes one unsupported feature placed into an otherwise conformant file.
type Inject struct {
	RG   int    `json:"rg"`
	Col  int    `json:"col"`
	Page int    `json:"page"`
	Kind string `json:"kind"`
}

// FilePhys is the physical description of a whole file.
type FilePhys struct {
	Chunks       [][]ChunkPhys `json:"chunks"` // [row group][column]
	CreatedBy    bool          `json:"created_by,omitempty"`
	KV           bool          `json:"kv,omitempty"`
	ColumnOrders bool          `json:"column_orders,omitempty"`
	RGExtras     bool          `json:"rg_extras,omitempty"` // RowGroup fields 5..7 of newer parquet.thrift
	FieldIDs     bool          `json:"field_ids,omitempty"`
	CreatedByLen int           `json:"created_by_len,omitempty"` // > 0: created_by is a string of exactly this many bytes (used to steer the footer length)
	Inject       *Inject       `json:"inject,omitempty"`
}

func compressBody(codec int32, mode int, body []byte) ([]byte, error) {
	switch codec {
	case CodecUncompressed:
		return body, nil
	case CodecSnappy:
		switch mode {
		case 1:
			return snappyLiteralOnly(body), nil
		case 2:
			return snappyNaiveCopies(body), nil
		}
		return snappy.Encode(nil, body), nil
	case CodecGzip:
		var b bytes.Buffer
		zw := gzip.NewWriter(&b)
		zw.Write(body)
		zw.Close()
		return b.Bytes(), nil
	}
	// codecs the harness cannot produce: body is left as is (rejection must come from metadata)
	return body, nil
}

// snappyLiteralOnly emits a valid snappy block consisting of literal elements only.
func snappyLiteralOnly(src []byte) []byte {
	out := uvarint(uint64(len(src)))
	sizes := []int{1, 60, 61, 7, 256, 300, 65536, 70000}
	i := 0
	for pos := 0; pos < len(src); i++ {
		n := sizes[i%len(sizes)]
		if n > len(src)-pos {
			n = len(src) - pos
		}
		out = append(out, snappyLiteral(src[pos:pos+n])...)
		pos += n
	}
	return out
}

func snappyLiteral(lit []byte) []byte {
	n := len(lit) - 1
	var out []byte
	switch {
	case n < 60:
		out = append(out, byte(n<<2))
	case n < 1<<8:
		out = append(out, 60<<2, byte(n))
	case n < 1<<16:
		out = append(out, 61<<2, byte(n), byte(n>>8))
	case n < 1<<24:
		out = append(out, 62<<2, byte(n), byte(n>>8), byte(n>>16))
	default:
		out = append(out, 63<<2, byte(n), byte(n>>8), byte(n>>16), byte(n>>24))
	}
	return append(out, lit...)
}

// snappyNaiveCopies emits literals and copy elements (1-byte-offset and 2-byte-offset forms)
// found by a naive search for the previous occurrence of the next 4 bytes.
func snappyNaiveCopies(src []byte) []byte {
	out := uvarint(uint64(len(src)))
	last := map[uint32]int{}
	litStart := 0
	pos := 0
	flush := func(end int) {
		for litStart < end {
			n := end - litStart
			if n > 65536 {
				n = 65536
			}
			out = append(out, snappyLiteral(src[litStart:litStart+n])...)
			litStart += n
		}
	}
	for pos+4 <= len(src) {
		key := binary.LittleEndian.Uint32(src[pos:])
		cand, ok := last[key]
		last[key] = pos
		if ok && pos-cand <= 65535 && pos-cand > 0 {
			// extend the match
			l := 4
			for pos+l < len(src) && src[cand+l] == src[pos+l] && l < 64 {
				l++
			}
			flush(pos)
			off := pos - cand
			if l >= 4 && l <= 11 && off < 2048 {
				out = append(out, byte(1|((l-4)<<2)|((off>>8)<<5)), byte(off))
			} else {
				out = append(out, byte(2|((l-1)<<2)), byte(off), byte(off>>8))
			}
			pos += l
			litStart = pos
			continue
		}
		pos++
	}
	flush(len(src))
	return out
}

// colTriples computes the entries of one column for a batch and the index of the first entry of every record.
func colTriples(col vt.Column, recs []*vt.Val) (ts []Triple, starts []int) {
	for _, r := range recs {
		starts = append(starts, len(ts))
		ts = append(ts, Shred(col, r)...)
	}
	return
}

func statBytes(typ int32, v vt.Val) []byte {
	return EncodePlain([]vt.Val{v}, typ)
}

// lessVal orders values of a leaf kind (signed/unsigned/IEEE/bytewise); NaN handled by caller.
func lessVal(k vt.Kind, a, b vt.Val) bool {
	switch k {
	case vt.Int32:
		return int32(a.U) < int32(b.U)
	case vt.Uint32:
		return uint32(a.U) < uint32(b.U)
	case vt.Int64:
		return int64(a.U) < int64(b.U)
	case vt.Uint64:
		return a.U < b.U
	case vt.Float32:
		return f32(a.U) < f32(b.U)
	case vt.Float64:
		return f64(a.U) < f64(b.U)
	case vt.Bool:
		return a.U < b.U
	case vt.String:
		return bytes.Compare(a.S, b.S) < 0
	}
	return false
}

func isNaN(k vt.Kind, v vt.Val) bool {
	switch k {
	case vt.Float32:
		x := f32(v.U)
		return x != x
	case vt.Float64:
		x := f64(v.U)
		return x != x
	}
	return false
}

func makeStats(k vt.Kind, typ int32, vals []vt.Val, nulls int, mode int) *Statistics {
	if mode == 0 {
		return nil
	}
	nc := int64(nulls)
	st := &Statistics{NullCount: &nc}
	if mode == 1 {
		return st
	}
	var mn, mx *vt.Val
	for i := range vals {
		v := vals[i]
		if isNaN(k, v) {
			continue
		}
		if mn == nil || lessVal(k, v, *mn) {
			mn = &vals[i]
		}
		if mx == nil || lessVal(k, *mx, v) {
			mx = &vals[i]
		}
	}
	if mn != nil {
		st.MinValue = statBytes(typ, *mn)
		st.MaxValue = statBytes(typ, *mx)
		if mode == 3 {
			st.Min = st.MinValue
			st.Max = st.MaxValue
		}
	}
	return st
}

type builtPage struct {
	header *PageHeader
	body   []byte // as stored (compressed)
}

// WriteFile builds a complete Parquet file for the shape, the batches (one row group each) and the physical description.
func WriteFile(root *vt.Node, batches [][]*vt.Val, phys *FilePhys) ([]byte, error) {
	cols := root.Columns()
	out := []byte("PAR1")
	meta := &FileMetaData{Version: 1, ColumnOrders: -1}
	meta.Schema = schemaElements(root, phys.FieldIDs)
	if phys.CreatedBy {
		s := "verifharness foreign writer (build 1)"
		meta.CreatedBy = &s
	}
	if phys.CreatedByLen > 0 {
		s := string(bytes.Repeat([]byte("v"), phys.CreatedByLen))
		meta.CreatedBy = &s
	}
	if phys.KV {
		v := "v"
		meta.KV = []KeyValue{{Key: "k1", Value: &v}, {Key: "k2"}}
	}
	if phys.ColumnOrders {
		meta.ColumnOrders = len(cols)
	}
	if len(phys.Chunks) != len(batches) {
		return nil, fmt.Errorf("phys has %d row groups, %d batches", len(phys.Chunks), len(batches))
	}
	for gi, recs := range batches {
		if len(phys.Chunks[gi]) != len(cols) {
			return nil, fmt.Errorf("row group %d: phys has %d chunks, shape has %d columns", gi, len(phys.Chunks[gi]), len(cols))
		}
		rg := RowGroup{NumRows: int64(len(recs))}
		rgStart := int64(len(out))
		var rgCompressed int64
		for ci, col := range cols {
			cp := phys.Chunks[gi][ci]
			var inj *Inject
			if phys.Inject != nil && phys.Inject.RG == gi && phys.Inject.Col == ci {
				inj = phys.Inject
			}
			typ, _ := PhysType(col.Leaf.Kind)
			pages, cm, err := buildChunk(col, typ, recs, cp, inj)
			if err != nil {
				return nil, fmt.Errorf("row group %d column %s: %v", gi, col.Name(), err)
			}
			start := int64(len(out))
			cm.DataPageOffset = start
			firstData := true
			for _, p := range pages {
				if p.header.Type == PageDict {
					off := int64(len(out))
					cm.DictPageOffset = &off
				} else if firstData {
					cm.DataPageOffset = int64(len(out))
					firstData = false
				}
				hb := p.header.Encode()
				out = append(out, hb...)
				out = append(out, p.body...)
				cm.TotalCompressed += int64(len(hb)) + int64(p.header.Compressed)
				cm.TotalUncompressed += int64(len(hb)) + int64(p.header.Uncompressed)
			}
			cm.Path = col.Path
			cm.Type = typ
			rg.Columns = append(rg.Columns, ColumnChunk{FileOffset: start, Meta: cm})
			rg.TotalByteSize += cm.TotalUncompressed
			rgCompressed += cm.TotalCompressed
		}
		if phys.RGExtras {
			o := int16(gi)
			rg.FileOffset, rg.TotalCompressedSize, rg.Ordinal = &rgStart, &rgCompressed, &o
		}
		meta.RowGroups = append(meta.RowGroups, rg)
		meta.NumRows += int64(len(recs))
	}
	fb := meta.Encode()
	out = append(out, fb...)
	var l [4]byte
	binary.LittleEndian.PutUint32(l[:], uint32(len(fb)))
	out = append(out, l[:]...)
	out = append(out, "PAR1"...)
	return out, nil
}

func schemaElements(root *vt.Node, fieldIDs bool) []SchemaElement {
	var out []SchemaElement
	id := int32(0)
	var walk func(n *vt.Node, top bool)
	walk = func(n *vt.Node, top bool) {
		se := SchemaElement{Name: n.Name}
		if !top {
			r := int32(n.Rep)
			se.Rep = &r
			if fieldIDs {
				id++
				x := id
				se.FieldID = &x
			}
		}
		if n.Kind == vt.Group {
			nc := int32(len(n.Children))
			se.NumChildren = &nc
			out = append(out, se)
			for _, c := range n.Children {
				walk(c, false)
			}
			return
		}
		t, ct := PhysType(n.Kind)
		se.Type = &t
		if ct >= 0 {
			se.Converted = &ct
		}
		out = append(out, se)
	}
	walk(root, true)
	return out
}

func buildChunk(col vt.Column, typ int32, recs []*vt.Val, cp ChunkPhys, inj *Inject) ([]builtPage, *ColumnMetaData, error) {
	ts, starts := colTriples(col, recs)
	cm := &ColumnMetaData{Codec: cp.Codec, Encodings: []int32{EncPlain, EncRLE}}
	if inj != nil && len(inj.Kind) > 6 && inj.Kind[:6] == "codec-" {
		switch inj.Kind {
		case "codec-lzo":
			cm.Codec = CodecLZO
		case "codec-brotli":
			cm.Codec = CodecBrotli
		case "codec-lz4":
			cm.Codec = CodecLZ4
		case "codec-zstd":
			cm.Codec = CodecZstd
		case "codec-lz4raw":
			cm.Codec = CodecLZ4Raw
		}
	}
	total := 0
	for _, p := range cp.Pages {
		if p.Records < 1 {
			return nil, nil, fmt.Errorf("page with %d records", p.Records)
		}
		total += p.Records
	}
	if total != len(recs) {
		return nil, nil, fmt.Errorf("pages cover %d of %d records", total, len(recs))
	}
	var pages []builtPage
	var allVals []vt.Val
	allNulls := 0
	// dictionary injection applies to the whole chunk
	var dict []vt.Val
	dictIdx := map[string]int{}
	// "dict-fallback": the chunk has a dictionary page, recorded in dictionary_page_offset, but every data page is PLAIN (a writer
	// that fell back to plain encoding at once): the dictionary page is the only unsupported thing in the file
	if inj != nil && (inj.Kind == "dict-plain" || inj.Kind == "dict-rle" || inj.Kind == "dict-fallback") {
		for _, t := range ts {
			if t.Val != nil {
				k := string(t.Val.S) + fmt.Sprintf("/%d", t.Val.U)
				if _, ok := dictIdx[k]; !ok {
					dictIdx[k] = len(dict)
					dict = append(dict, *t.Val)
				}
			}
		}
		if len(dict) == 0 {
			dict = append(dict, vt.Val{S: vt.Bytes{}})
		}
		body := EncodePlain(dict, typ)
		stored, _ := compressBody(cm.Codec, 0, body)
		enc := int32(EncPlainDict)
		if inj.Kind == "dict-rle" {
			enc = EncPlain
		}
		pages = append(pages, builtPage{header: &PageHeader{Type: PageDict, Uncompressed: int32(len(body)), Compressed: int32(len(stored)),
			Dict: &DictPageHeader{NumValues: int32(len(dict)), Encoding: enc}}, body: stored})
		cm.Encodings = append(cm.Encodings, EncPlainDict)
	}
	rec := 0
	for pi, pp := range cp.Pages {
		from := starts[rec]
		to := len(ts)
		if rec+pp.Records < len(recs) {
			to = starts[rec+pp.Records]
		}
		rec += pp.Records
		pts := ts[from:to]
		var reps, defs []uint8
		var vals []vt.Val
		nulls := 0
		for _, t := range pts {
			reps = append(reps, uint8(t.Rep))
			defs = append(defs, uint8(t.Def))
			if t.Val != nil {
				vals = append(vals, *t.Val)
			} else {
				nulls++
			}
		}
		allVals = append(allVals, vals...)
		allNulls += nulls
		kind := ""
		if inj != nil && (inj.Page == pi || inj.Kind == "dict-plain" || inj.Kind == "dict-rle") {
			kind = inj.Kind
		}
		if kind == "index-page" {
			// an index page precedes this data page
			ib := []byte{1, 2, 3, 4, 5, 6, 7, 8}
			stored, _ := compressBody(cm.Codec, 0, ib)
			pages = append(pages, builtPage{header: &PageHeader{Type: PageIndex, Uncompressed: int32(len(ib)), Compressed: int32(len(stored)), Index: &struct{}{}}, body: stored})
		}
		h := &DataPageHeader{NumValues: int32(len(pts)), Encoding: EncPlain, DefEnc: EncRLE, RepEnc: EncRLE}
		var body []byte
		repW, defW := BitWidth(col.MaxRep), BitWidth(col.MaxDef)
		var repBytes, defBytes []byte
		if col.MaxRep > 0 {
			if kind == "lvl-bitpacked-rep" {
				h.RepEnc = EncBitPacked
				repBytes = packMSB(reps, repW)
			} else {
				b, err := EncodeLevels(reps, repW, pp.RepSegs, pp.Pad&uint8(1<<uint(repW)-1))
				if err != nil {
					return nil, nil, fmt.Errorf("page %d rep levels: %v", pi, err)
				}
				repBytes = b
			}
		} else if cp.LegacyLabels {
			h.RepEnc = EncBitPacked
		}
		if col.MaxDef > 0 {
			if kind == "lvl-bitpacked-def" {
				h.DefEnc = EncBitPacked
				defBytes = packMSB(defs, defW)
			} else {
				b, err := EncodeLevels(defs, defW, pp.DefSegs, pp.Pad&uint8(1<<uint(defW)-1))
				if err != nil {
					return nil, nil, fmt.Errorf("page %d def levels: %v", pi, err)
				}
				defBytes = b
			}
		} else if cp.LegacyLabels {
			h.DefEnc = EncBitPacked
		}
		valBytes := EncodePlain(vals, typ)
		switch kind {
		case "dict-plain", "dict-rle":
			idx := make([]uint32, len(vals))
			for i, v := range vals {
				idx[i] = uint32(dictIdx[string(v.S)+fmt.Sprintf("/%d", v.U)])
			}
			bw := BitWidth(len(dict) - 1)
			if bw == 0 {
				bw = 1
			}
			valBytes = append([]byte{byte(bw)}, encodeHybridU32(idx, bw)...)
			if kind == "dict-plain" {
				h.Encoding = EncPlainDict
			} else {
				h.Encoding = EncRLEDict
			}
		case "enc-bss":
			valBytes = byteStreamSplit(valBytes, len(vals))
			h.Encoding = EncByteStreamSplt
		case "enc-rle-bool":
			lv := make([]uint8, len(vals))
			for i, v := range vals {
				lv[i] = uint8(v.U)
			}
			valBytes, _ = EncodeLevels(lv, 1, nil, 0)
			h.Encoding = EncRLE
		case "enc-delta-binary":
			iv := make([]int64, len(vals))
			for i, v := range vals {
				if typ == TypeInt32 {
					iv[i] = int64(int32(v.U))
				} else {
					iv[i] = int64(v.U)
				}
			}
			valBytes = deltaBinaryPacked(iv)
			h.Encoding = EncDeltaBinary
		case "enc-delta-length":
			lens := make([]int64, len(vals))
			var data []byte
			for i, v := range vals {
				lens[i] = int64(len(v.S))
				data = append(data, v.S...)
			}
			valBytes = append(deltaBinaryPacked(lens), data...)
			h.Encoding = EncDeltaLenBA
		case "enc-delta-bytearray":
			pre := make([]int64, len(vals))
			suf := make([]int64, len(vals))
			var data []byte
			var prev []byte
			for i, v := range vals {
				p := 0
				for p < len(prev) && p < len(v.S) && prev[p] == v.S[p] {
					p++
				}
				pre[i] = int64(p)
				suf[i] = int64(len(v.S) - p)
				data = append(data, v.S[p:]...)
				prev = v.S
			}
			valBytes = append(append(deltaBinaryPacked(pre), deltaBinaryPacked(suf)...), data...)
			h.Encoding = EncDeltaBA
		}
		h.Stats = makeStats(col.Leaf.Kind, typ, vals, nulls, pp.Stats)
		var ph *PageHeader
		if kind == "v2" {
			// DATA_PAGE_V2: levels are not length-prefixed and never compressed
			rb, db := []byte{}, []byte{}
			if col.MaxRep > 0 {
				rb, _ = EncodeHybrid(reps, repW, pp.RepSegs, 0)
			}
			if col.MaxDef > 0 {
				db, _ = EncodeHybrid(defs, defW, pp.DefSegs, 0)
			}
			stored, _ := compressBody(cm.Codec, pp.Snappy, valBytes)
			comp := cm.Codec != CodecUncompressed
			body = append(append(append([]byte{}, rb...), db...), stored...)
			ph = &PageHeader{Type: PageV2, Uncompressed: int32(len(rb) + len(db) + len(valBytes)), Compressed: int32(len(body)),
				V2: &DataPageHeaderV2{NumValues: int32(len(pts)), NumNulls: int32(nulls), NumRows: int32(pp.Records), Encoding: EncPlain,
					DefLen: int32(len(db)), RepLen: int32(len(rb)), IsCompressed: &comp, Stats: h.Stats}}
			pages = append(pages, builtPage{header: ph, body: body})
			continue
		}
		raw := append(append(append([]byte{}, repBytes...), defBytes...), valBytes...)
		stored, err := compressBody(cm.Codec, pp.Snappy, raw)
		if err != nil {
			return nil, nil, err
		}
		ph = &PageHeader{Type: PageData, Uncompressed: int32(len(raw)), Compressed: int32(len(stored)), Data: h}
		if pp.CRC {
			// crc32 (IEEE) of the page body as stored, i.e. after compression
			c := int32(crc32.ChecksumIEEE(stored))
			ph.CRC = &c
		}
		pages = append(pages, builtPage{header: ph, body: stored})
	}
	cm.NumValues = int64(len(ts))
	if cp.MetaStats {
		cm.Stats = makeStats(col.Leaf.Kind, typ, allVals, allNulls, 2)
	}
	if cp.EncStats {
		cm.EncodingStats = []PageEncodingStats{{PageType: PageData, Encoding: EncPlain, Count: int32(len(cp.Pages))}}
	}
	if cp.KV {
		v := "x"
		cm.KV = []KeyValue{{Key: "colkey", Value: &v}}
	}
	if cp.ZeroOffsets && cm.DictPageOffset == nil {
		z1, z2 := int64(0), int64(0)
		cm.DictPageOffset, cm.IndexPageOffset = &z1, &z2
	}
	return pages, cm, nil
}

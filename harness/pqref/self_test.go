package pqref

import (
	"reflect"
	"testing"

	"pgregory.net/rapid"

	"verifharness/vt"
)

// Self-tests of the trusted toolkit: the spec decoder inverts the spec encoder for every segmentation,
// the assembler inverts the shredder, files from the foreign writer validate under the walker and hold
// the logical content, thrift structures survive encode/decode.

type stInner struct {
	P int64    `parquet:"p"`
	Q *string  `parquet:"q"`
	R []uint32 `parquet:"r"`
}
type stMid struct {
	A  int32     `parquet:"a"`
	In []stInner `parquet:"in"`
	O  *stInner  `parquet:"o"`
}
type stRec struct {
	ID   int32    `parquet:"id"`
	Name *string  `parquet:"name"`
	Tags []string `parquet:"tags"`
	M    stMid    `parquet:"m"`
	OM   *stMid   `parquet:"om"`
	RM   []stMid  `parquet:"rm"`
	F    float32  `parquet:"f"`
	B    []bool   `parquet:"b"`
}

func selfRoot(t interface{ Fatalf(string, ...interface{}) }) *vt.Node {
	root, err := vt.FromType(reflect.TypeOf(stRec{}))
	if err != nil {
		t.Fatalf("%v", err)
	}
	return root
}

func drawSegs(t *rapid.T, levels []uint8) []Run {
	var out []Run
	pos, n := 0, len(levels)
	for pos < n {
		same := 1
		for pos+same < n && levels[pos+same] == levels[pos] {
			same++
		}
		if rapid.Bool().Draw(t, "rle") {
			c := rapid.IntRange(1, same).Draw(t, "c")
			out = append(out, Run{RLE: true, Count: c})
			pos += c
			continue
		}
		g := rapid.IntRange(1, (n-pos+7)/8).Draw(t, "g")
		out = append(out, Run{Count: g})
		pos += 8 * g
	}
	return out
}

func TestSelfLevelCodec(t *testing.T) {
	rapid.Check(t, func(t *rapid.T) {
		w := rapid.IntRange(1, 4).Draw(t, "w")
		lv := rapid.SliceOfN(rapid.Uint8Range(0, uint8(1<<uint(w)-1)), 0, 1200).Draw(t, "levels")
		if rapid.Bool().Draw(t, "runs") {
			// make it run-heavy
			for i := 1; i < len(lv); i++ {
				if i%5 != 0 {
					lv[i] = lv[i-1]
				}
			}
		}
		segs := drawSegs(t, lv)
		pad := uint8(rapid.IntRange(0, 1<<uint(w)-1).Draw(t, "pad"))
		enc, err := EncodeLevels(lv, w, segs, pad)
		if err != nil {
			t.Fatalf("encode: %v", err)
		}
		got, info, err := DecodeLevelsStrict(enc, w, len(lv))
		if err != nil {
			t.Fatalf("strict decoder rejects the spec encoder's output: %v", err)
		}
		if info.Consumed != len(enc) || len(got) != len(lv) {
			t.Fatalf("consumed %d of %d, %d values of %d", info.Consumed, len(enc), len(got), len(lv))
		}
		for i := range lv {
			if got[i] != lv[i] {
				t.Fatalf("value %d differs", i)
			}
		}
		if len(info.Runs) != len(segs) {
			t.Fatalf("decoder saw %d runs, %d were encoded", len(info.Runs), len(segs))
		}
	})
}

func TestSelfStrictDecoderRejects(t *testing.T) {
	bad := [][]byte{
		{1, 0, 0, 0},             // length prefix beyond data
		{1, 0, 0, 0, 0x01},       // bit-packed run with zero groups
		{1, 0, 0, 0, 0x00},       // RLE run of length zero, value missing
		{2, 0, 0, 0, 0x04, 0x02}, // RLE value 2 does not fit width 1
		{2, 0, 0, 0, 0x03, 0xff}, // bit-packed run of 1 group for width 1 is 1 byte: ok -> handled below
	}
	for i, b := range bad[:4] {
		if _, _, err := DecodeLevelsStrict(b, 1, 1); err == nil {
			t.Fatalf("malformed stream %d accepted", i)
		}
	}
	if _, _, err := DecodeLevelsStrict(bad[4], 1, 8); err != nil {
		t.Fatalf("well-formed stream rejected: %v", err)
	}
	// 16 decoded values for a page of 8: 8 padding values -> malformed
	if _, _, err := DecodeLevelsStrict([]byte{3, 0, 0, 0, 0x05, 0xff, 0xff}, 1, 8); err == nil {
		t.Fatalf("8 padding values accepted")
	}
	// surplus after a final RLE run
	if _, _, err := DecodeLevelsStrict([]byte{2, 0, 0, 0, 0x14, 0x01}, 1, 8); err == nil {
		t.Fatalf("surplus values after RLE run accepted")
	}
}

func TestSelfDremelInverse(t *testing.T) {
	root := selfRoot(t)
	cols := root.Columns()
	cfg := vt.DefaultGen
	rapid.Check(t, func(t *rapid.T) {
		rec := vt.GenRecord(t, root, cfg)
		ts := make([][]Triple, len(cols))
		for i, c := range cols {
			ts[i] = Shred(c, rec)
			for _, x := range ts[i] {
				if x.Rep > c.MaxRep || x.Def > c.MaxDef {
					t.Fatalf("levels exceed maxima")
				}
			}
		}
		back, err := Assemble(root, cols, ts)
		if err != nil {
			t.Fatalf("assemble: %v", err)
		}
		if d := vt.Diff(root, rec, back, ""); d != "" {
			t.Fatalf("assemble(shred(rec)) differs: %s", d)
		}
	})
}

func TestSelfAssemblerDetectsInconsistentSiblings(t *testing.T) {
	root := selfRoot(t)
	cols := root.Columns()
	rec := vt.Nth(root, 0)
	_ = rec
	// a record with rm = two elements; drop one entry from one column of rm
	var r *vt.Val
	for i := uint64(0); i < 5000; i++ {
		v := &vt.Val{F: make([]*vt.Val, len(root.Children))}
		x := i
		for ci, c := range root.Children {
			s := vt.SizeOf(c)
			v.F[ci] = vt.Nth(c, x%s)
			x /= s
		}
		if len(v.F[5].L) == 2 {
			r = v
			break
		}
	}
	if r == nil {
		t.Skip("no such record in the first indices")
	}
	var ctr uint64
	for ci, c := range root.Children {
		vt.FillPayload(c, r.F[ci], &ctr)
	}
	ts := make([][]Triple, len(cols))
	target := -1
	for i, c := range cols {
		ts[i] = Shred(c, r)
		if c.Path[0] == "rm" && target < 0 && len(ts[i]) >= 2 {
			target = i
		}
	}
	if target < 0 {
		t.Skip("no rm column with two entries")
	}
	// keep only the entries of the first element (up to the next repetition level 1)
	cut := len(ts[target])
	for k := 1; k < len(ts[target]); k++ {
		if ts[target][k].Rep == 1 {
			cut = k
			break
		}
	}
	ts[target] = ts[target][:cut]
	if _, err := Assemble(root, cols, ts); err == nil {
		t.Fatalf("assembler accepted sibling columns that disagree on the length of rm")
	}
}

func TestSelfForeignWriterValidates(t *testing.T) {
	root := selfRoot(t)
	cols := root.Columns()
	cfg := vt.DefaultGen
	rapid.Check(t, func(t *rapid.T) {
		var batches [][]*vt.Val
		phys := &FilePhys{CreatedBy: rapid.Bool().Draw(t, "cb"), KV: rapid.Bool().Draw(t, "kv"), ColumnOrders: rapid.Bool().Draw(t, "co"), RGExtras: rapid.Bool().Draw(t, "rgx"), FieldIDs: rapid.Bool().Draw(t, "fid")}
		for g := 0; g < rapid.IntRange(1, 3).Draw(t, "rgs"); g++ {
			n := rapid.IntRange(1, 12).Draw(t, "n")
			var recs []*vt.Val
			for i := 0; i < n; i++ {
				recs = append(recs, vt.GenRecord(t, root, cfg))
			}
			batches = append(batches, recs)
			var chunks []ChunkPhys
			for _, col := range cols {
				cp := ChunkPhys{Codec: int32(rapid.IntRange(0, 2).Draw(t, "codec")), MetaStats: rapid.Bool().Draw(t, "ms"), EncStats: rapid.Bool().Draw(t, "es")}
				rem := n
				r := 0
				for rem > 0 {
					k := rapid.IntRange(1, rem).Draw(t, "k")
					pp := PagePhys{Records: k, Stats: rapid.IntRange(0, 3).Draw(t, "st"), Snappy: rapid.IntRange(0, 2).Draw(t, "sn")}
					var reps, defs []uint8
					for _, rec := range recs[r : r+k] {
						for _, tr := range Shred(col, rec) {
							reps = append(reps, uint8(tr.Rep))
							defs = append(defs, uint8(tr.Def))
						}
					}
					if col.MaxRep > 0 {
						pp.RepSegs = drawSegs(t, reps)
					}
					if col.MaxDef > 0 {
						pp.DefSegs = drawSegs(t, defs)
					}
					cp.Pages = append(cp.Pages, pp)
					rem -= k
					r += k
				}
				chunks = append(chunks, cp)
			}
			phys.Chunks = append(phys.Chunks, chunks)
		}
		file, err := WriteFile(root, batches, phys)
		if err != nil {
			t.Fatalf("writer: %v", err)
		}
		pf, err := ParseFile(file, Options{})
		if err != nil {
			t.Fatalf("walker rejects the foreign writer's file: %v", err)
		}
		if err := pf.CheckShape(root); err != nil {
			t.Fatalf("schema: %v", err)
		}
		got, err := pf.Records(root)
		if err != nil {
			t.Fatalf("records: %v", err)
		}
		for gi := range batches {
			for i := range batches[gi] {
				if d := vt.Diff(root, batches[gi][i], got[gi][i], ""); d != "" {
					t.Fatalf("row group %d record %d: %s", gi, i, d)
				}
			}
		}
		// every strict prefix of the file must be rejected by the walker (framing is checked)
		for _, cut := range []int{0, 3, 4, len(file) / 2, len(file) - 9, len(file) - 8, len(file) - 4, len(file) - 1} {
			if cut < 0 || cut >= len(file) {
				continue
			}
			if _, err := ParseFile(file[:cut], Options{}); err == nil {
				t.Fatalf("walker accepts a %d-byte prefix of a %d-byte file", cut, len(file))
			}
		}
	})
}

func TestSelfThriftRoundTrip(t *testing.T) {
	nc := int64(3)
	ph := &PageHeader{Type: PageData, Uncompressed: 100, Compressed: 70, Data: &DataPageHeader{NumValues: 9, Encoding: EncPlain, DefEnc: EncRLE, RepEnc: EncRLE,
		Stats: &Statistics{NullCount: &nc, MinValue: []byte{}, MaxValue: []byte("zz")}}}
	b := ph.Encode()
	got, n, err := DecodePageHeader(append(b, 0xAA, 0xBB))
	if err != nil || n != len(b) {
		t.Fatalf("decode: %v n=%d len=%d", err, n, len(b))
	}
	if !reflect.DeepEqual(got, ph) {
		t.Fatalf("page header round trip differs: %+v vs %+v", got.Data, ph.Data)
	}
	// a field with id > 15 apart and a long list
	fs := []TField{{ID: 1, V: TI32(-5)}, {ID: 40, V: TStr("x")}, {ID: 41, V: TListV(tI64, make([]TVal, 20))}}
	for i := range fs[2].V.List {
		fs[2].V.List[i] = TI64(int64(i) - 10)
	}
	enc := WriteStruct(fs)
	back, n, err := ReadStruct(enc)
	if err != nil || n != len(enc) || len(back) != 3 || back[1].ID != 40 || back[2].V.List[0].I != -10 || back[0].V.I != -5 {
		t.Fatalf("generic thrift round trip failed: %v %+v", err, back)
	}
}

// Package pqref is the harness's independent Parquet toolkit: thrift compact
// protocol, footer/page-header structures, file walker with byte ledger,
// RLE/bit-packed hybrid codec, PLAIN codec, Dremel shredder/assembler and a
// foreign file writer. It is written from the Parquet format specification and
// imports nothing from github.com/parsyl/parquet.
package pqref

import (
	"encoding/binary"
	"errors"
	"fmt"
	"math"
)

// compact protocol type ids
const (
	tStop   = 0
	tTrue   = 1
	tFalse  = 2
	tByte   = 3
	tI16    = 4
	tI32    = 5
	tI64    = 6
	tDouble = 7
	tBinary = 8
	tList   = 9
	tSet    = 10
	tMap    = 11
	tStruct = 12
)

// TVal is a generic thrift value.
type TVal struct {
	Type   byte // compact type id; booleans are stored as tTrue/tFalse
	I      int64
	D      float64
	Bin    []byte
	Elem   byte // element type for lists
	List   []TVal
	Fields []TField
}

type TField struct {
	ID int16
	V  TVal
}

func (v TVal) Bool() bool { return v.Type == tTrue }

type treader struct {
	b   []byte
	pos int
	dep int
}

var errShort = errors.New("thrift: unexpected end of data")

func (r *treader) byte() (byte, error) {
	if r.pos >= len(r.b) {
		return 0, errShort
	}
	c := r.b[r.pos]
	r.pos++
	return c, nil
}

func (r *treader) uvarint() (uint64, error) {
	var out uint64
	var shift uint
	for i := 0; i < 10; i++ {
		c, err := r.byte()
		if err != nil {
			return 0, err
		}
		out |= uint64(c&0x7f) << shift
		if c&0x80 == 0 {
			return out, nil
		}
		shift += 7
	}
	return 0, errors.New("thrift: varint too long")
}

func (r *treader) zigzag() (int64, error) {
	u, err := r.uvarint()
	if err != nil {
		return 0, err
	}
	return int64(u>>1) ^ -int64(u&1), nil
}

func (r *treader) value(typ byte) (TVal, error) {
	r.dep++
	defer func() { r.dep-- }()
	if r.dep > 64 {
		return TVal{}, errors.New("thrift: nesting too deep")
	}
	switch typ {
	case tTrue, tFalse:
		return TVal{Type: typ}, nil
	case tByte:
		c, err := r.byte()
		return TVal{Type: typ, I: int64(int8(c))}, err
	case tI16, tI32, tI64:
		i, err := r.zigzag()
		return TVal{Type: typ, I: i}, err
	case tDouble:
		if r.pos+8 > len(r.b) {
			return TVal{}, errShort
		}
		u := binary.LittleEndian.Uint64(r.b[r.pos:])
		r.pos += 8
		return TVal{Type: typ, D: math.Float64frombits(u)}, nil
	case tBinary:
		n, err := r.uvarint()
		if err != nil {
			return TVal{}, err
		}
		if n > uint64(len(r.b)-r.pos) {
			return TVal{}, errShort
		}
		out := append([]byte{}, r.b[r.pos:r.pos+int(n)]...)
		r.pos += int(n)
		return TVal{Type: typ, Bin: out}, nil
	case tList, tSet:
		h, err := r.byte()
		if err != nil {
			return TVal{}, err
		}
		n := uint64(h >> 4)
		et := h & 0x0f
		if n == 15 {
			n, err = r.uvarint()
			if err != nil {
				return TVal{}, err
			}
		}
		if n > uint64(len(r.b)-r.pos) {
			// every element occupies at least one byte
			return TVal{}, errShort
		}
		v := TVal{Type: typ, Elem: et}
		for i := uint64(0); i < n; i++ {
			var e TVal
			if et == tTrue || et == tFalse {
				c, err := r.byte()
				if err != nil {
					return TVal{}, err
				}
				if c == 1 {
					e = TVal{Type: tTrue}
				} else {
					e = TVal{Type: tFalse}
				}
			} else {
				e, err = r.value(et)
				if err != nil {
					return TVal{}, err
				}
			}
			v.List = append(v.List, e)
		}
		return v, nil
	case tStruct:
		f, err := r.structFields()
		return TVal{Type: typ, Fields: f}, err
	case tMap:
		return TVal{}, errors.New("thrift: map not supported (parquet.thrift has none)")
	}
	return TVal{}, fmt.Errorf("thrift: bad type id %d", typ)
}

func (r *treader) structFields() ([]TField, error) {
	var out []TField
	var last int16
	for {
		h, err := r.byte()
		if err != nil {
			return nil, err
		}
		if h == tStop {
			return out, nil
		}
		typ := h & 0x0f
		delta := h >> 4
		var id int16
		if delta == 0 {
			z, err := r.zigzag()
			if err != nil {
				return nil, err
			}
			id = int16(z)
		} else {
			id = last + int16(delta)
		}
		last = id
		v, err := r.value(typ)
		if err != nil {
			return nil, fmt.Errorf("field %d: %w", id, err)
		}
		out = append(out, TField{ID: id, V: v})
	}
}

// ReadStruct decodes one thrift compact struct from b and returns the number
// of bytes it occupied.
func ReadStruct(b []byte) ([]TField, int, error) {
	r := &treader{b: b}
	f, err := r.structFields()
	return f, r.pos, err
}

// ---------------------------------------------------------------------------
// writer

type twriter struct{ b []byte }

func (w *twriter) uvarint(u uint64) {
	for u >= 0x80 {
		w.b = append(w.b, byte(u)|0x80)
		u >>= 7
	}
	w.b = append(w.b, byte(u))
}

func (w *twriter) zigzag(i int64) { w.uvarint(uint64(i<<1) ^ uint64(i>>63)) }

func (w *twriter) value(v TVal) {
	switch v.Type {
	case tTrue, tFalse:
	case tByte:
		w.b = append(w.b, byte(v.I))
	case tI16, tI32, tI64:
		w.zigzag(v.I)
	case tDouble:
		var x [8]byte
		binary.LittleEndian.PutUint64(x[:], math.Float64bits(v.D))
		w.b = append(w.b, x[:]...)
	case tBinary:
		w.uvarint(uint64(len(v.Bin)))
		w.b = append(w.b, v.Bin...)
	case tList, tSet:
		n := len(v.List)
		if n < 15 {
			w.b = append(w.b, byte(n<<4)|v.Elem)
		} else {
			w.b = append(w.b, 0xf0|v.Elem)
			w.uvarint(uint64(n))
		}
		for _, e := range v.List {
			if v.Elem == tTrue || v.Elem == tFalse {
				if e.Type == tTrue {
					w.b = append(w.b, 1)
				} else {
					w.b = append(w.b, 2)
				}
			} else {
				w.value(e)
			}
		}
	case tStruct:
		w.structFields(v.Fields)
	default:
		panic(fmt.Sprintf("thrift write: bad type %d", v.Type))
	}
}

func (w *twriter) structFields(fs []TField) {
	var last int16
	for _, f := range fs {
		d := f.ID - last
		if d > 0 && d <= 15 {
			w.b = append(w.b, byte(d<<4)|f.V.Type)
		} else {
			w.b = append(w.b, f.V.Type)
			w.zigzag(int64(f.ID))
		}
		last = f.ID
		w.value(f.V)
	}
	w.b = append(w.b, tStop)
}

// WriteStruct encodes fields (which must be in the order they are to appear).
func WriteStruct(fs []TField) []byte {
	w := &twriter{}
	w.structFields(fs)
	return w.b
}

// constructors
func TI32(i int32) TVal        { return TVal{Type: tI32, I: int64(i)} }
func TI16(i int16) TVal        { return TVal{Type: tI16, I: int64(i)} }
func TI64(i int64) TVal        { return TVal{Type: tI64, I: i} }
func TBin(b []byte) TVal       { return TVal{Type: tBinary, Bin: b} }
func TStr(s string) TVal       { return TVal{Type: tBinary, Bin: []byte(s)} }
func TStructV(f []TField) TVal { return TVal{Type: tStruct, Fields: f} }
func TBoolV(b bool) TVal {
	if b {
		return TVal{Type: tTrue}
	}
	return TVal{Type: tFalse}
}
func TListV(elem byte, l []TVal) TVal { return TVal{Type: tList, Elem: elem, List: l} }

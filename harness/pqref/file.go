package pqref

import (
	"bytes"
	"compress/gzip"
	"encoding/binary"
	"fmt"
	"io"
	"strings"

	"github.com/golang/snappy"

	"verifharness/vt"
)

// Problem is a structural error found by the walker. Code is a stable,
// coarse identifier (used for known-finding matching); Msg has the details.
type Problem struct {
	Code string
	Msg  string
}

func (p *Problem) Error() string { return p.Code + ": " + p.Msg }

func prob(code, f string, a ...interface{}) *Problem {
	return &Problem{Code: code, Msg: fmt.Sprintf(f, a...)}
}

// SchemaNode is the footer's schema as a tree.
type SchemaNode struct {
	El       *SchemaElement
	Children []*SchemaNode
}

// Leaf is a leaf of the footer schema with derived path data.
type Leaf struct {
	Path   []string
	El     *SchemaElement
	MaxDef int
	MaxRep int
	Reps   []int32 // repetition types along the path
}

// Page is one parsed page of a column chunk.
type Page struct {
	Offset    int64 // of the page header
	HeaderLen int
	Header    *PageHeader
	Body      []byte // decompressed
	// for v1 data pages with PLAIN values:
	Reps, Defs []uint8
	RepInfo    *LevelInfo
	DefInfo    *LevelInfo
	Values     []vt.Val
	Records    int // number of entries with rep == 0
}

// Chunk is one parsed column chunk.
type Chunk struct {
	Col   *ColumnChunk
	Leaf  *Leaf
	Pages []*Page
	Start int64
	End   int64 // one past the last byte of the last page
}

// Triples returns the chunk's entries across its pages.
func (c *Chunk) Triples() []Triple {
	var out []Triple
	for _, p := range c.Pages {
		vi := 0
		n := int(p.Header.Data.NumValues)
		for i := 0; i < n; i++ {
			t := Triple{}
			if c.Leaf.MaxRep > 0 {
				t.Rep = int(p.Reps[i])
			}
			if c.Leaf.MaxDef > 0 {
				t.Def = int(p.Defs[i])
			}
			if t.Def == c.Leaf.MaxDef {
				v := p.Values[vi]
				t.Val = &v
				vi++
			}
			out = append(out, t)
		}
	}
	return out
}

type RowGroupData struct {
	RG     *RowGroup
	Chunks []*Chunk
}

type File struct {
	Raw       []byte
	Meta      *FileMetaData
	FooterOff int
	FooterLen int
	Schema    *SchemaNode
	Leaves    []*Leaf
	RowGroups []*RowGroupData
}

// Options tune what the walker insists on.
type Options struct {
	// AllowGaps: do not demand that every byte is accounted for / chunks contiguous.
	AllowGaps bool
	// FooterOnly: stop after footer + schema tree.
	FooterOnly bool
}

// ParseFile walks a complete Parquet file and validates it structurally.
func ParseFile(b []byte, opt Options) (*File, error) {
	f := &File{Raw: b}
	if len(b) < 12 {
		return nil, prob("framing", "file of %d bytes is too short", len(b))
	}
	if string(b[:4]) != "PAR1" {
		return nil, prob("framing", "leading magic is %q", b[:4])
	}
	if string(b[len(b)-4:]) != "PAR1" {
		return nil, prob("framing", "trailing magic is %q", b[len(b)-4:])
	}
	fl := int(binary.LittleEndian.Uint32(b[len(b)-8:]))
	if fl <= 0 || fl > len(b)-12 {
		return nil, prob("framing", "footer length %d does not fit a %d-byte file", fl, len(b))
	}
	f.FooterLen = fl
	f.FooterOff = len(b) - 8 - fl
	meta, err := DecodeFileMetaData(b[f.FooterOff : f.FooterOff+fl])
	if err != nil {
		return nil, prob("footer-decode", "%v", err)
	}
	f.Meta = meta
	if err := f.buildSchema(); err != nil {
		return nil, err
	}
	if opt.FooterOnly {
		return f, nil
	}

	// ledger: 0 = unaccounted
	ledger := make([]byte, len(b))
	mark := func(from, to int, what byte) *Problem {
		if from < 0 || to > len(b) || from > to {
			return prob("offsets", "range [%d,%d) outside file of %d bytes", from, to, len(b))
		}
		for i := from; i < to; i++ {
			if ledger[i] != 0 {
				return prob("overlap", "byte %d claimed twice", i)
			}
			ledger[i] = what
		}
		return nil
	}
	mark(0, 4, 'm')
	mark(len(b)-4, len(b), 'm')
	mark(len(b)-8, len(b)-4, 'l')
	mark(f.FooterOff, f.FooterOff+fl, 'f')

	var totalRows int64
	next := int64(4)
	for gi := range meta.RowGroups {
		rg := &meta.RowGroups[gi]
		rgd := &RowGroupData{RG: rg}
		f.RowGroups = append(f.RowGroups, rgd)
		if len(rg.Columns) != len(f.Leaves) {
			return nil, prob("columns", "row group %d has %d column chunks, schema has %d leaves", gi, len(rg.Columns), len(f.Leaves))
		}
		if rg.NumRows <= 0 {
			return nil, prob("rowgroup-rows", "row group %d has num_rows %d", gi, rg.NumRows)
		}
		totalRows += rg.NumRows
		var sumUncompressed int64
		for ci := range rg.Columns {
			cc := &rg.Columns[ci]
			leaf := f.Leaves[ci]
			where := fmt.Sprintf("row group %d column %d (%s)", gi, ci, strings.Join(leaf.Path, "."))
			if cc.Meta == nil {
				return nil, prob("columns", "%s: no meta_data", where)
			}
			md := cc.Meta
			if strings.Join(md.Path, "\x00") != strings.Join(leaf.Path, "\x00") {
				return nil, prob("columns", "%s: path_in_schema is %v", where, md.Path)
			}
			if leaf.El.Type == nil || md.Type != *leaf.El.Type {
				return nil, prob("columns", "%s: chunk type %d differs from schema", where, md.Type)
			}
			if cc.FilePath != nil {
				return nil, prob("columns", "%s: file_path set", where)
			}
			if !opt.AllowGaps {
				if md.DataPageOffset != next {
					return nil, prob("offsets", "%s: data_page_offset %d, but the previous chunk ended at %d", where, md.DataPageOffset, next)
				}
				if cc.FileOffset != md.DataPageOffset {
					return nil, prob("offsets", "%s: file_offset %d differs from data_page_offset %d", where, cc.FileOffset, md.DataPageOffset)
				}
			}
			ch, err := f.parseChunk(cc, leaf, where, mark)
			if err != nil {
				return nil, err
			}
			rgd.Chunks = append(rgd.Chunks, ch)
			next = ch.End
			sumUncompressed += md.TotalUncompressed
			// records in chunk
			recs := 0
			for _, p := range ch.Pages {
				recs += p.Records
			}
			if int64(recs) != rg.NumRows {
				return nil, prob("rowgroup-rows", "%s: chunk holds %d records, row group num_rows is %d", where, recs, rg.NumRows)
			}
		}
		if rg.TotalByteSize != sumUncompressed {
			return nil, prob("total-byte-size", "row group %d: total_byte_size %d, sum of total_uncompressed_size of its chunks is %d", gi, rg.TotalByteSize, sumUncompressed)
		}
	}
	if meta.NumRows != totalRows {
		return nil, prob("num-rows", "FileMetaData.num_rows %d, row groups sum to %d", meta.NumRows, totalRows)
	}
	if !opt.AllowGaps {
		for i, c := range ledger {
			if c == 0 {
				return nil, prob("unaccounted", "byte %d (of %d) belongs to no page, footer or framing", i, len(b))
			}
		}
	}
	return f, nil
}

func (f *File) buildSchema() error {
	els := f.Meta.Schema
	if len(els) == 0 {
		return prob("schema-tree", "empty schema")
	}
	pos := 0
	var build func(depth int) (*SchemaNode, *Problem)
	build = func(depth int) (*SchemaNode, *Problem) {
		if pos >= len(els) {
			return nil, prob("schema-tree", "num_children run past the end of the %d schema elements", len(els))
		}
		if depth > 64 {
			return nil, prob("schema-tree", "too deep")
		}
		el := &els[pos]
		pos++
		n := &SchemaNode{El: el}
		nc := 0
		if el.NumChildren != nil {
			nc = int(*el.NumChildren)
		}
		if nc < 0 {
			return nil, prob("schema-tree", "element %q has num_children %d", el.Name, nc)
		}
		if el.Type != nil && nc != 0 {
			return nil, prob("schema-tree", "element %q has both a type and %d children", el.Name, nc)
		}
		if el.Type == nil && nc == 0 {
			return nil, prob("schema-tree", "element %q has neither type nor children", el.Name)
		}
		for i := 0; i < nc; i++ {
			c, err := build(depth + 1)
			if err != nil {
				return nil, err
			}
			n.Children = append(n.Children, c)
		}
		return n, nil
	}
	root, perr := build(0)
	if perr != nil {
		return perr
	}
	if pos != len(els) {
		return prob("schema-tree", "schema tree by num_children uses %d of %d elements", pos, len(els))
	}
	if root.El.Type != nil {
		return prob("schema-tree", "root has a type")
	}
	f.Schema = root
	var walk func(n *SchemaNode, path []string, reps []int32) *Problem
	walk = func(n *SchemaNode, path []string, reps []int32) *Problem {
		for _, c := range n.Children {
			if c.El.Rep == nil {
				return prob("schema-tree", "element %q has no repetition_type", c.El.Name)
			}
			if *c.El.Rep < 0 || *c.El.Rep > 2 {
				return prob("schema-tree", "element %q has repetition_type %d", c.El.Name, *c.El.Rep)
			}
			p2 := append(append([]string{}, path...), c.El.Name)
			r2 := append(append([]int32{}, reps...), *c.El.Rep)
			if len(c.Children) > 0 {
				if err := walk(c, p2, r2); err != nil {
					return err
				}
				continue
			}
			l := &Leaf{Path: p2, El: c.El, Reps: r2}
			for _, r := range r2 {
				if r != RepRequired {
					l.MaxDef++
				}
				if r == RepRepeated {
					l.MaxRep++
				}
			}
			f.Leaves = append(f.Leaves, l)
		}
		return nil
	}
	if err := walk(root, nil, nil); err != nil {
		return err
	}
	return nil
}

// Decompress a page body with the given codec.
func Decompress(codec int32, body []byte) ([]byte, error) {
	switch codec {
	case CodecUncompressed:
		return body, nil
	case CodecSnappy:
		return snappy.Decode(nil, body)
	case CodecGzip:
		zr, err := gzip.NewReader(bytes.NewReader(body))
		if err != nil {
			return nil, err
		}
		out, err := io.ReadAll(zr)
		if err != nil {
			return nil, err
		}
		return out, zr.Close()
	}
	return nil, fmt.Errorf("codec %d not available in the harness", codec)
}

func (f *File) parseChunk(cc *ColumnChunk, leaf *Leaf, where string, mark func(int, int, byte) *Problem) (*Chunk, error) {
	md := cc.Meta
	b := f.Raw
	ch := &Chunk{Col: cc, Leaf: leaf, Start: md.DataPageOffset}
	pos := md.DataPageOffset
	var nvals, sumC, sumU int64
	for nvals < md.NumValues || len(ch.Pages) == 0 {
		if pos < 4 || pos >= int64(f.FooterOff) {
			return nil, prob("offsets", "%s: page header offset %d outside the data area [4,%d)", where, pos, f.FooterOff)
		}
		ph, hl, err := DecodePageHeader(b[pos:f.FooterOff])
		if err != nil {
			return nil, prob("page-header", "%s: page %d at %d: %v", where, len(ch.Pages), pos, err)
		}
		pw := fmt.Sprintf("%s page %d", where, len(ch.Pages))
		if ph.Type != PageData || ph.Data == nil {
			return nil, prob("page-type", "%s: page type %d", pw, ph.Type)
		}
		if ph.Compressed < 0 || ph.Uncompressed < 0 || pos+int64(hl)+int64(ph.Compressed) > int64(f.FooterOff) {
			return nil, prob("page-size", "%s: compressed_page_size %d runs past the data area", pw, ph.Compressed)
		}
		if p := mark(int(pos), int(pos)+hl, 'h'); p != nil {
			return nil, p
		}
		bodyStart := int(pos) + hl
		if p := mark(bodyStart, bodyStart+int(ph.Compressed), 'b'); p != nil {
			return nil, p
		}
		raw := b[bodyStart : bodyStart+int(ph.Compressed)]
		body, err := Decompress(md.Codec, raw)
		if err != nil {
			return nil, prob("page-codec", "%s: body does not decompress with recorded codec %d: %v", pw, md.Codec, err)
		}
		if len(body) != int(ph.Uncompressed) {
			return nil, prob("page-size", "%s: uncompressed_page_size %d, body decompresses to %d bytes", pw, ph.Uncompressed, len(body))
		}
		pg := &Page{Offset: pos, HeaderLen: hl, Header: ph, Body: body}
		if err := parseDataPageV1(pg, leaf, pw); err != nil {
			return nil, err
		}
		ch.Pages = append(ch.Pages, pg)
		nvals += int64(ph.Data.NumValues)
		sumC += int64(hl) + int64(ph.Compressed)
		sumU += int64(hl) + int64(ph.Uncompressed)
		pos += int64(hl) + int64(ph.Compressed)
		if ph.Data.NumValues <= 0 {
			return nil, prob("page-values", "%s: num_values %d", pw, ph.Data.NumValues)
		}
	}
	ch.End = pos
	if nvals != md.NumValues {
		return nil, prob("chunk-values", "%s: pages hold %d values, chunk num_values is %d", where, nvals, md.NumValues)
	}
	if sumC != md.TotalCompressed {
		return nil, prob("chunk-size", "%s: total_compressed_size %d, pages (headers+bodies) occupy %d", where, md.TotalCompressed, sumC)
	}
	if sumU != md.TotalUncompressed {
		return nil, prob("chunk-size", "%s: total_uncompressed_size %d, headers + uncompressed bodies are %d", where, md.TotalUncompressed, sumU)
	}
	return ch, nil
}

func parseDataPageV1(pg *Page, leaf *Leaf, pw string) error {
	h := pg.Header.Data
	if h.Encoding != EncPlain {
		return prob("page-encoding", "%s: value encoding %d", pw, h.Encoding)
	}
	n := int(h.NumValues)
	body := pg.Body
	pos := 0
	if leaf.MaxRep > 0 {
		if h.RepEnc != EncRLE {
			return prob("page-encoding", "%s: repetition level encoding %d", pw, h.RepEnc)
		}
		lv, info, err := DecodeLevelsStrict(body[pos:], BitWidth(leaf.MaxRep), n)
		if err != nil {
			return prob("page-levels", "%s: repetition levels: %v", pw, err)
		}
		pg.Reps, pg.RepInfo = lv, info
		pos += info.Consumed
		for _, r := range lv {
			if int(r) > leaf.MaxRep {
				return prob("page-levels", "%s: repetition level %d > max %d", pw, r, leaf.MaxRep)
			}
		}
		if n > 0 && lv[0] != 0 {
			return prob("page-boundary", "%s: first repetition level is %d; page does not start at a record boundary", pw, lv[0])
		}
		for _, r := range lv {
			if r == 0 {
				pg.Records++
			}
		}
	} else {
		pg.Records = n
	}
	nonNull := n
	if leaf.MaxDef > 0 {
		if h.DefEnc != EncRLE {
			return prob("page-encoding", "%s: definition level encoding %d", pw, h.DefEnc)
		}
		lv, info, err := DecodeLevelsStrict(body[pos:], BitWidth(leaf.MaxDef), n)
		if err != nil {
			return prob("page-levels", "%s: definition levels: %v", pw, err)
		}
		pg.Defs, pg.DefInfo = lv, info
		pos += info.Consumed
		nonNull = 0
		for _, d := range lv {
			if int(d) > leaf.MaxDef {
				return prob("page-levels", "%s: definition level %d > max %d", pw, d, leaf.MaxDef)
			}
			if int(d) == leaf.MaxDef {
				nonNull++
			}
		}
	}
	vals, used, err := DecodePlain(body[pos:], *leaf.El.Type, nonNull)
	if err != nil {
		return prob("page-values", "%s: %v", pw, err)
	}
	if pos+used != len(body) {
		return prob("page-values", "%s: %d non-null values end at byte %d of a %d-byte body", pw, nonNull, pos+used, len(body))
	}
	pg.Values = vals
	return nil
}

// CheckShape compares the footer schema with the schema expected for a Go
// struct shape: names, nesting, repetition, physical and converted types.
func (f *File) CheckShape(root *vt.Node) error {
	var cmp func(sn *SchemaNode, n *vt.Node, path string) *Problem
	cmp = func(sn *SchemaNode, n *vt.Node, path string) *Problem {
		if len(sn.Children) != len(n.Children) {
			var got []string
			for _, c := range sn.Children {
				got = append(got, c.El.Name)
			}
			return prob("schema-shape", "group %q has children %v, struct has %d fields", path, got, len(n.Children))
		}
		for i, c := range n.Children {
			sc := sn.Children[i]
			p := path + "." + c.Name
			if sc.El.Name != c.Name {
				return prob("schema-shape", "%s: element is named %q", p, sc.El.Name)
			}
			if sc.El.Rep == nil || int(*sc.El.Rep) != int(c.Rep) {
				return prob("schema-shape", "%s: repetition_type differs (want %s)", p, c.Rep)
			}
			if c.Kind == vt.Group {
				if sc.El.Type != nil {
					return prob("schema-shape", "%s: group has a type", p)
				}
				if err := cmp(sc, c, p); err != nil {
					return err
				}
				continue
			}
			if len(sc.Children) != 0 {
				return prob("schema-shape", "%s: leaf has children", p)
			}
			pt, ct := PhysType(c.Kind)
			if sc.El.Type == nil || *sc.El.Type != pt {
				return prob("schema-shape", "%s: physical type differs (want %d)", p, pt)
			}
			if ct >= 0 && (sc.El.Converted == nil || *sc.El.Converted != ct) {
				return prob("schema-shape", "%s: converted type missing (want %d)", p, ct)
			}
			if ct < 0 && sc.El.Converted != nil {
				return prob("schema-shape", "%s: unexpected converted type %d", p, *sc.El.Converted)
			}
		}
		return nil
	}
	if p := cmp(f.Schema, root, "root"); p != nil {
		return p
	}
	return nil
}

// Records reassembles all records of the file with the reference assembler.
func (f *File) Records(root *vt.Node) ([][]*vt.Val, error) {
	cols := root.Columns()
	var out [][]*vt.Val
	for gi, rg := range f.RowGroups {
		if len(rg.Chunks) != len(cols) {
			return nil, prob("columns", "row group %d: %d chunks, shape has %d columns", gi, len(rg.Chunks), len(cols))
		}
		per := make([][][]Triple, len(cols))
		for ci, ch := range rg.Chunks {
			per[ci] = SplitRecords(ch.Triples())
			if len(per[ci]) != int(rg.RG.NumRows) {
				return nil, prob("rowgroup-rows", "row group %d column %s: %d records, num_rows %d", gi, cols[ci].Name(), len(per[ci]), rg.RG.NumRows)
			}
		}
		var recs []*vt.Val
		for r := 0; r < int(rg.RG.NumRows); r++ {
			ts := make([][]Triple, len(cols))
			for ci := range cols {
				ts[ci] = per[ci][r]
			}
			v, err := Assemble(root, cols, ts)
			if err != nil {
				return nil, prob("assembly", "row group %d record %d: %v", gi, r, err)
			}
			recs = append(recs, v)
		}
		out = append(out, recs)
	}
	return out, nil
}

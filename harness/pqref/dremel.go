package pqref

import (
	"fmt"

	"verifharness/vt"
)

// Triple is one entry of a column: repetition level, definition level and,
// when Def equals the column's maximum, the value.
type Triple struct {
	Rep, Def int
	Val      *vt.Val // nil when Def < max
}

// Shred computes the Dremel striping of one record for one column, directly
// from the definitions in the Dremel paper: the definition level counts the
// optional/repeated fields on the path that are present, the repetition level
// is the level of the repeated field at which the path last repeated.
func Shred(col vt.Column, rec *vt.Val) []Triple {
	var out []Triple
	last := len(col.Nodes) - 1
	var walk func(depth int, gv *vt.Val, rep, def, repLevel int)
	descend := func(depth int, v *vt.Val, rep, def, repLevel int) {
		if depth == last {
			out = append(out, Triple{Rep: rep, Def: def, Val: v})
			return
		}
		walk(depth+1, v, rep, def, repLevel)
	}
	walk = func(depth int, gv *vt.Val, rep, def, repLevel int) {
		n := col.Nodes[depth]
		v := gv.F[col.Idx[depth]]
		switch n.Rep {
		case vt.Required:
			descend(depth, v, rep, def, repLevel)
		case vt.Optional:
			if v.Null {
				out = append(out, Triple{Rep: rep, Def: def})
				return
			}
			descend(depth, v, rep, def+1, repLevel)
		case vt.Repeated:
			my := repLevel + 1
			if len(v.L) == 0 {
				out = append(out, Triple{Rep: rep, Def: def})
				return
			}
			for i, e := range v.L {
				r := rep
				if i > 0 {
					r = my
				}
				descend(depth, e, r, def+1, my)
			}
		}
	}
	walk(0, rec, 0, 0, 0)
	return out
}

// pt is the partial tree one column implies for one record.
type pt struct {
	touched bool
	null    bool
	empty   bool
	list    []*pt
	child   *pt     // next node of the chain inside this (group) instance
	leaf    *vt.Val // value for the last node
}

// assembleColumn turns the triples of one record of one column into a partial tree.
func assembleColumn(col vt.Column, ts []Triple) (*pt, error) {
	root := &pt{}
	last := len(col.Nodes) - 1
	for ti, t := range ts {
		if (ti == 0) != (t.Rep == 0) {
			return nil, fmt.Errorf("column %s: triple %d of record has repetition level %d", col.Name(), ti, t.Rep)
		}
		if t.Rep > col.MaxRep || t.Def > col.MaxDef || t.Rep < 0 || t.Def < 0 {
			return nil, fmt.Errorf("column %s: levels (r=%d,d=%d) exceed maxima (%d,%d)", col.Name(), t.Rep, t.Def, col.MaxRep, col.MaxDef)
		}
		if (t.Def == col.MaxDef) != (t.Val != nil) {
			return nil, fmt.Errorf("column %s: value presence does not match definition level", col.Name())
		}
		cur := root
		defSeen, repSeen := 0, 0
	chain:
		for depth, n := range col.Nodes {
			if cur.child == nil {
				cur.child = &pt{}
			}
			x := cur.child
			first := !x.touched
			x.touched = true
			var inner *pt
			fresh := false
			switch n.Rep {
			case vt.Required:
				inner = x
				fresh = first
			case vt.Optional:
				defSeen++
				if t.Def < defSeen {
					if !first {
						return nil, fmt.Errorf("column %s: null at %s inside an instance already described", col.Name(), n.Name)
					}
					x.null = true
					break chain
				}
				if x.null {
					return nil, fmt.Errorf("column %s: %s both null and present", col.Name(), n.Name)
				}
				inner = x
				fresh = first
			case vt.Repeated:
				defSeen++
				repSeen++
				if t.Def < defSeen {
					if !first {
						return nil, fmt.Errorf("column %s: empty list at %s inside a list already started", col.Name(), n.Name)
					}
					x.empty = true
					break chain
				}
				if x.empty {
					return nil, fmt.Errorf("column %s: list %s both empty and non-empty", col.Name(), n.Name)
				}
				switch {
				case t.Rep == repSeen:
					if first {
						return nil, fmt.Errorf("column %s: repetition level %d continues a list %s that has not started", col.Name(), t.Rep, n.Name)
					}
					x.list = append(x.list, &pt{touched: true})
					fresh = true
				case t.Rep < repSeen:
					if !first {
						return nil, fmt.Errorf("column %s: repetition level %d restarts list %s inside the same parent", col.Name(), t.Rep, n.Name)
					}
					x.list = append(x.list, &pt{touched: true})
					fresh = true
				default:
					if len(x.list) == 0 {
						return nil, fmt.Errorf("column %s: repetition level %d refers to an element of %s that does not exist", col.Name(), t.Rep, n.Name)
					}
				}
				inner = x.list[len(x.list)-1]
			}
			if depth == last {
				if !fresh {
					return nil, fmt.Errorf("column %s: two values for the same position", col.Name())
				}
				inner.leaf = t.Val
			} else {
				cur = inner
			}
		}
	}
	return root, nil
}

// Assemble rebuilds one record from the per-column triples of that record
// (cols[i] ↔ triples[i]) and verifies that sibling columns agree on the
// null-ness of every optional group and the length of every repeated group.
func Assemble(root *vt.Node, cols []vt.Column, triples [][]Triple) (*vt.Val, error) {
	pts := make([]*pt, len(cols))
	for i, c := range cols {
		p, err := assembleColumn(c, triples[i])
		if err != nil {
			return nil, err
		}
		pts[i] = p
	}
	// cursor per column: the pt of the group instance currently being merged
	ci := 0
	var mergeGroup func(g *vt.Node, inst []*pt, colIdx []int) (*vt.Val, error)
	mergeGroup = func(g *vt.Node, inst []*pt, colIdx []int) (*vt.Val, error) {
		// inst[k] is the pt of this group instance as seen by column colIdx[k]
		out := &vt.Val{F: make([]*vt.Val, len(g.Children))}
		k := 0
		for i, c := range g.Children {
			// columns below child c
			n := countLeaves(c)
			sub := inst[k : k+n]
			subIdx := colIdx[k : k+n]
			k += n
			var xs []*pt
			for _, p := range sub {
				if p.child == nil {
					return nil, fmt.Errorf("column %s says nothing about %s", cols[subIdx[0]].Name(), c.Name)
				}
				xs = append(xs, p.child)
			}
			switch c.Rep {
			case vt.Required:
				v, err := mergeInner(c, xs, subIdx, cols, mergeGroup)
				if err != nil {
					return nil, err
				}
				out.F[i] = v
			case vt.Optional:
				for _, x := range xs[1:] {
					if x.null != xs[0].null {
						return nil, fmt.Errorf("columns %s and %s disagree on whether %s is null", cols[subIdx[0]].Name(), cols[subIdx[1]].Name(), c.Name)
					}
				}
				if xs[0].null {
					out.F[i] = &vt.Val{Null: true}
					continue
				}
				v, err := mergeInner(c, xs, subIdx, cols, mergeGroup)
				if err != nil {
					return nil, err
				}
				out.F[i] = v
			case vt.Repeated:
				ln := len(xs[0].list)
				for j, x := range xs[1:] {
					if len(x.list) != ln {
						return nil, fmt.Errorf("columns %s and %s disagree on the length of %s (%d vs %d)", cols[subIdx[0]].Name(), cols[subIdx[j+1]].Name(), c.Name, ln, len(x.list))
					}
				}
				l := &vt.Val{}
				for e := 0; e < ln; e++ {
					es := make([]*pt, len(xs))
					for j, x := range xs {
						es[j] = x.list[e]
					}
					v, err := mergeInner(c, es, subIdx, cols, mergeGroup)
					if err != nil {
						return nil, err
					}
					l.L = append(l.L, v)
				}
				out.F[i] = l
			}
		}
		return out, nil
	}
	_ = ci
	idx := make([]int, len(cols))
	for i := range idx {
		idx[i] = i
	}
	if countLeaves(root) != len(cols) {
		return nil, fmt.Errorf("shape has %d leaves, %d columns given", countLeaves(root), len(cols))
	}
	return mergeGroup(root, pts, idx)
}

func mergeInner(c *vt.Node, xs []*pt, subIdx []int, cols []vt.Column, mergeGroup func(*vt.Node, []*pt, []int) (*vt.Val, error)) (*vt.Val, error) {
	if c.Kind != vt.Group {
		if xs[0].leaf == nil {
			return nil, fmt.Errorf("column %s: missing value", cols[subIdx[0]].Name())
		}
		return vt.Clone(xs[0].leaf), nil
	}
	return mergeGroup(c, xs, subIdx)
}

func countLeaves(n *vt.Node) int {
	if n.Kind != vt.Group {
		return 1
	}
	t := 0
	for _, c := range n.Children {
		t += countLeaves(c)
	}
	return t
}

// SplitRecords cuts a column's triple stream into per-record slices at Rep==0.
func SplitRecords(ts []Triple) [][]Triple {
	var out [][]Triple
	for i, t := range ts {
		if t.Rep == 0 || i == 0 {
			out = append(out, nil)
		}
		out[len(out)-1] = append(out[len(out)-1], t)
	}
	return out
}

package pqref

import (
	"encoding/binary"
	"fmt"

	"verifharness/vt"
)

// PhysType maps a leaf kind to its Parquet physical type and converted type (-1 none).
func PhysType(k vt.Kind) (int32, int32) {
	switch k {
	case vt.Int32:
		return TypeInt32, -1
	case vt.Uint32:
		return TypeInt32, ConvUint32
	case vt.Int64:
		return TypeInt64, -1
	case vt.Uint64:
		return TypeInt64, ConvUint64
	case vt.Float32:
		return TypeFloat, -1
	case vt.Float64:
		return TypeDouble, -1
	case vt.Bool:
		return TypeBoolean, -1
	case vt.String:
		return TypeByteArray, -1
	}
	panic("bad kind")
}

// DecodePlain decodes exactly n PLAIN values of the physical type from b and
// returns the number of bytes consumed. Numeric values are returned as raw bits.
func DecodePlain(b []byte, typ int32, n int) ([]vt.Val, int, error) {
	out := make([]vt.Val, 0, n)
	switch typ {
	case TypeBoolean:
		nb := (n + 7) / 8
		if len(b) < nb {
			return nil, 0, fmt.Errorf("plain: %d booleans need %d bytes, have %d", n, nb, len(b))
		}
		for i := 0; i < n; i++ {
			var u uint64
			if b[i/8]&(1<<uint(i%8)) != 0 {
				u = 1
			}
			out = append(out, vt.Val{U: u})
		}
		return out, nb, nil
	case TypeInt32, TypeFloat:
		if len(b) < 4*n {
			return nil, 0, fmt.Errorf("plain: %d 4-byte values need %d bytes, have %d", n, 4*n, len(b))
		}
		for i := 0; i < n; i++ {
			out = append(out, vt.Val{U: uint64(binary.LittleEndian.Uint32(b[4*i:]))})
		}
		return out, 4 * n, nil
	case TypeInt64, TypeDouble:
		if len(b) < 8*n {
			return nil, 0, fmt.Errorf("plain: %d 8-byte values need %d bytes, have %d", n, 8*n, len(b))
		}
		for i := 0; i < n; i++ {
			out = append(out, vt.Val{U: binary.LittleEndian.Uint64(b[8*i:])})
		}
		return out, 8 * n, nil
	case TypeByteArray:
		pos := 0
		for i := 0; i < n; i++ {
			if len(b)-pos < 4 {
				return nil, 0, fmt.Errorf("plain: byte array %d/%d: no length", i, n)
			}
			l := int(binary.LittleEndian.Uint32(b[pos:]))
			pos += 4
			if l < 0 || l > len(b)-pos {
				return nil, 0, fmt.Errorf("plain: byte array %d/%d: length %d exceeds %d", i, n, l, len(b)-pos)
			}
			out = append(out, vt.Val{S: append(vt.Bytes{}, b[pos:pos+l]...)})
			pos += l
		}
		return out, pos, nil
	}
	return nil, 0, fmt.Errorf("plain: unsupported physical type %d", typ)
}

// EncodePlain encodes values of the physical type.
func EncodePlain(vals []vt.Val, typ int32) []byte {
	var out []byte
	switch typ {
	case TypeBoolean:
		out = make([]byte, (len(vals)+7)/8)
		for i, v := range vals {
			if v.U != 0 {
				out[i/8] |= 1 << uint(i%8)
			}
		}
	case TypeInt32, TypeFloat:
		out = make([]byte, 4*len(vals))
		for i, v := range vals {
			binary.LittleEndian.PutUint32(out[4*i:], uint32(v.U))
		}
	case TypeInt64, TypeDouble:
		out = make([]byte, 8*len(vals))
		for i, v := range vals {
			binary.LittleEndian.PutUint64(out[8*i:], v.U)
		}
	case TypeByteArray:
		for _, v := range vals {
			var l [4]byte
			binary.LittleEndian.PutUint32(l[:], uint32(len(v.S)))
			out = append(out, l[:]...)
			out = append(out, v.S...)
		}
	default:
		panic("bad type")
	}
	return out
}

package pqref

import (
	"math"
	"math/bits"
)

func f32(u uint64) float32 { return math.Float32frombits(uint32(u)) }
func f64(u uint64) float64 { return math.Float64frombits(u) }

// packMSB is the deprecated BIT_PACKED level encoding: values packed back to back,
// most significant bit first, no length prefix.
func packMSB(vals []uint8, width int) []byte {
	out := make([]byte, (len(vals)*width+7)/8)
	bit := 0
	for _, v := range vals {
		for k := width - 1; k >= 0; k-- {
			if v&(1<<uint(k)) != 0 {
				out[bit>>3] |= 1 << uint(7-bit&7)
			}
			bit++
		}
	}
	return out
}

// packLSB32 packs 32-bit values of the given width LSB first; len(vals) must be a multiple of 8.
func packLSB32(vals []uint64, width int) []byte {
	out := make([]byte, (len(vals)*width+7)/8)
	bit := 0
	for _, v := range vals {
		for k := 0; k < width; k++ {
			if v&(1<<uint(k)) != 0 {
				out[bit>>3] |= 1 << uint(bit&7)
			}
			bit++
		}
	}
	return out
}

// encodeHybridU32 encodes dictionary indices as one bit-packed run of the hybrid encoding (no length prefix).
func encodeHybridU32(idx []uint32, width int) []byte {
	groups := (len(idx) + 7) / 8
	if groups == 0 {
		return nil
	}
	vals := make([]uint64, groups*8)
	for i, v := range idx {
		vals[i] = uint64(v)
	}
	return append(uvarint(uint64(groups)<<1|1), packLSB32(vals, width)...)
}

// byteStreamSplit transposes the bytes of n fixed-width values into k streams.
func byteStreamSplit(plain []byte, n int) []byte {
	if n == 0 {
		return plain
	}
	k := len(plain) / n
	out := make([]byte, len(plain))
	for i := 0; i < n; i++ {
		for j := 0; j < k; j++ {
			out[j*n+i] = plain[i*k+j]
		}
	}
	return out
}

func zigzagBytes(i int64) []byte { return uvarint(uint64(i<<1) ^ uint64(i>>63)) }

// deltaBinaryPacked implements DELTA_BINARY_PACKED with blocks of 128 values in 4 miniblocks.
func deltaBinaryPacked(vals []int64) []byte {
	const blockSize, miniBlocks = 128, 4
	const miniSize = blockSize / miniBlocks
	out := uvarint(blockSize)
	out = append(out, uvarint(miniBlocks)...)
	out = append(out, uvarint(uint64(len(vals)))...)
	first := int64(0)
	if len(vals) > 0 {
		first = vals[0]
	}
	out = append(out, zigzagBytes(first)...)
	if len(vals) <= 1 {
		return out
	}
	deltas := make([]int64, len(vals)-1)
	for i := 1; i < len(vals); i++ {
		deltas[i-1] = vals[i] - vals[i-1]
	}
	for pos := 0; pos < len(deltas); pos += blockSize {
		end := pos + blockSize
		if end > len(deltas) {
			end = len(deltas)
		}
		blk := deltas[pos:end]
		minD := blk[0]
		for _, d := range blk {
			if d < minD {
				minD = d
			}
		}
		out = append(out, zigzagBytes(minD)...)
		widths := make([]byte, miniBlocks)
		var datas [][]byte
		for m := 0; m < miniBlocks; m++ {
			from := m * miniSize
			if from >= len(blk) {
				break
			}
			to := from + miniSize
			if to > len(blk) {
				to = len(blk)
			}
			adj := make([]uint64, miniSize)
			w := 0
			for i, d := range blk[from:to] {
				adj[i] = uint64(d - minD)
				if l := bits.Len64(adj[i]); l > w {
					w = l
				}
			}
			widths[m] = byte(w)
			datas = append(datas, packLSB32(adj, w))
		}
		out = append(out, widths...)
		for _, d := range datas {
			out = append(out, d...)
		}
	}
	return out
}

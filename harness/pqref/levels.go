package pqref

import (
	"encoding/binary"
	"fmt"
)

// BitWidth returns the number of bits needed for levels 0..max.
func BitWidth(max int) int {
	w := 0
	for max > 0 {
		w++
		max >>= 1
	}
	return w
}

// Run describes one run of a hybrid stream as found by the strict decoder,
// or as requested from the encoder.
type Run struct {
	RLE   bool
	Count int // RLE: number of repeated values; bit-packed: number of 8-value groups
	// decoder only:
	HeaderBytes int
}

// LevelInfo is what the strict decoder learned about a stream.
type LevelInfo struct {
	Runs     []Run
	Decoded  int // values decoded in total (incl. padding)
	Consumed int // bytes consumed incl. the 4-byte length prefix
}

// DecodeLevelsStrict decodes a length-prefixed RLE/bit-packed hybrid stream at
// the start of b, as found in a v1 data page, and checks well-formedness:
// exact length prefix, legal run headers and payloads, RLE values < 2^width,
// fewer than 8 padding values and only after a final bit-packed run.
// It returns the first numValues levels.
func DecodeLevelsStrict(b []byte, width int, numValues int) ([]uint8, *LevelInfo, error) {
	if width < 1 || width > 8 {
		return nil, nil, fmt.Errorf("levels: bad width %d", width)
	}
	if len(b) < 4 {
		return nil, nil, fmt.Errorf("levels: no room for length prefix (%d bytes left)", len(b))
	}
	ln := int(binary.LittleEndian.Uint32(b))
	if ln < 0 || ln > len(b)-4 {
		return nil, nil, fmt.Errorf("levels: length prefix %d exceeds remaining %d bytes", ln, len(b)-4)
	}
	out, info, err := DecodeHybrid(b[4:4+ln], width, numValues)
	if err != nil {
		return nil, nil, err
	}
	info.Consumed = 4 + ln
	return out, info, nil
}

// DecodeHybrid decodes a hybrid stream without length prefix; the whole of b must be consumed.
func DecodeHybrid(b []byte, width int, numValues int) ([]uint8, *LevelInfo, error) {
	info := &LevelInfo{}
	var out []uint8
	pos := 0
	lastWasBP := false
	for pos < len(b) {
		// varint header
		var h uint64
		var shift uint
		start := pos
		for {
			if pos >= len(b) {
				return nil, nil, fmt.Errorf("levels: run header truncated at byte %d", start)
			}
			c := b[pos]
			pos++
			h |= uint64(c&0x7f) << shift
			if c&0x80 == 0 {
				break
			}
			shift += 7
			if shift > 35 {
				return nil, nil, fmt.Errorf("levels: run header varint too long at byte %d", start)
			}
		}
		hb := pos - start
		if h&1 == 1 {
			groups := int(h >> 1)
			if groups == 0 {
				return nil, nil, fmt.Errorf("levels: bit-packed run with zero groups at byte %d", start)
			}
			if len(out)+groups*8 > numValues+7 {
				return nil, nil, fmt.Errorf("levels: bit-packed run of %d groups after %d decoded values overshoots num_values %d by 8 or more", groups, len(out), numValues)
			}
			nb := groups * width
			if pos+nb > len(b) {
				return nil, nil, fmt.Errorf("levels: bit-packed run of %d groups needs %d bytes, %d left", groups, nb, len(b)-pos)
			}
			out = append(out, unpackLSB(b[pos:pos+nb], width, groups*8)...)
			pos += nb
			info.Runs = append(info.Runs, Run{RLE: false, Count: groups, HeaderBytes: hb})
			lastWasBP = true
		} else {
			cnt := int(h >> 1)
			if cnt == 0 {
				return nil, nil, fmt.Errorf("levels: RLE run of length zero at byte %d", start)
			}
			vb := (width + 7) / 8
			if pos+vb > len(b) {
				return nil, nil, fmt.Errorf("levels: RLE run value truncated at byte %d", pos)
			}
			v := 0
			for i := 0; i < vb; i++ {
				v |= int(b[pos+i]) << (8 * uint(i))
			}
			pos += vb
			if v >= 1<<uint(width) {
				return nil, nil, fmt.Errorf("levels: RLE value %d does not fit width %d", v, width)
			}
			if len(out)+cnt > numValues {
				// (an RLE run cannot carry padding; fail before materialising a huge run)
				return nil, nil, fmt.Errorf("levels: RLE run of %d values after %d decoded exceeds num_values %d", cnt, len(out), numValues)
			}
			for i := 0; i < cnt; i++ {
				out = append(out, uint8(v))
			}
			info.Runs = append(info.Runs, Run{RLE: true, Count: cnt, HeaderBytes: hb})
			lastWasBP = false
		}
	}
	info.Decoded = len(out)
	if len(out) < numValues {
		return nil, nil, fmt.Errorf("levels: stream holds %d values, page has %d", len(out), numValues)
	}
	pad := len(out) - numValues
	if pad > 0 {
		if !lastWasBP {
			return nil, nil, fmt.Errorf("levels: %d surplus values after a final RLE run", pad)
		}
		if pad >= 8 {
			return nil, nil, fmt.Errorf("levels: %d padding values (must be < 8)", pad)
		}
	}
	return out[:numValues], info, nil
}

// unpackLSB extracts n values of the given width, LSB first, from b.
func unpackLSB(b []byte, width int, n int) []uint8 {
	out := make([]uint8, n)
	bit := 0
	for i := 0; i < n; i++ {
		v := 0
		for k := 0; k < width; k++ {
			if b[bit>>3]&(1<<uint(bit&7)) != 0 {
				v |= 1 << uint(k)
			}
			bit++
		}
		out[i] = uint8(v)
	}
	return out
}

// PackLSB packs values of the given width LSB first; len(vals) must be a multiple of 8.
func PackLSB(vals []uint8, width int) []byte {
	out := make([]byte, len(vals)*width/8)
	bit := 0
	for _, v := range vals {
		for k := 0; k < width; k++ {
			if v&(1<<uint(k)) != 0 {
				out[bit>>3] |= 1 << uint(bit&7)
			}
			bit++
		}
	}
	return out
}

func uvarint(u uint64) []byte {
	var out []byte
	for u >= 0x80 {
		out = append(out, byte(u)|0x80)
		u >>= 7
	}
	return append(out, byte(u))
}

// EncodeHybrid encodes levels following the given segmentation. RLE runs must
// cover equal values; a bit-packed run of g groups covers 8*g values (the last
// run may be short: it is padded with pad values). If segs is nil a default
// segmentation (one bit-packed run) is used. No length prefix.
func EncodeHybrid(levels []uint8, width int, segs []Run, pad uint8) ([]byte, error) {
	if segs == nil {
		if len(levels) > 0 {
			segs = []Run{{RLE: false, Count: (len(levels) + 7) / 8}}
		}
	}
	var out []byte
	pos := 0
	for si, s := range segs {
		if s.RLE {
			if s.Count < 1 || pos+s.Count > len(levels) {
				return nil, fmt.Errorf("seg %d: RLE run of %d at %d/%d", si, s.Count, pos, len(levels))
			}
			v := levels[pos]
			for i := 0; i < s.Count; i++ {
				if levels[pos+i] != v {
					return nil, fmt.Errorf("seg %d: RLE run over unequal values", si)
				}
			}
			out = append(out, uvarint(uint64(s.Count)<<1)...)
			out = append(out, v)
			if width > 8 {
				out = append(out, 0)
			}
			pos += s.Count
		} else {
			n := s.Count * 8
			if s.Count < 1 {
				return nil, fmt.Errorf("seg %d: zero groups", si)
			}
			vals := make([]uint8, n)
			avail := len(levels) - pos
			if avail < n {
				if si != len(segs)-1 || n-avail >= 8 || avail <= 0 {
					return nil, fmt.Errorf("seg %d: bit-packed run of %d groups with only %d values left", si, s.Count, avail)
				}
				copy(vals, levels[pos:])
				for i := avail; i < n; i++ {
					vals[i] = pad
				}
				pos = len(levels)
			} else {
				copy(vals, levels[pos:pos+n])
				pos += n
			}
			out = append(out, uvarint(uint64(s.Count)<<1|1)...)
			out = append(out, PackLSB(vals, width)...)
		}
	}
	if pos != len(levels) {
		return nil, fmt.Errorf("segmentation covers %d of %d values", pos, len(levels))
	}
	return out, nil
}

// EncodeLevels is EncodeHybrid with the 4-byte length prefix of v1 data pages.
func EncodeLevels(levels []uint8, width int, segs []Run, pad uint8) ([]byte, error) {
	body, err := EncodeHybrid(levels, width, segs, pad)
	if err != nil {
		return nil, err
	}
	out := make([]byte, 4, 4+len(body))
	binary.LittleEndian.PutUint32(out, uint32(len(body)))
	return append(out, body...), nil
}

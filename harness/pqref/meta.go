package pqref

import (
	"fmt"
)

// Parquet enums (parquet.thrift)
const (
	TypeBoolean   = 0
	TypeInt32     = 1
	TypeInt64     = 2
	TypeInt96     = 3
	TypeFloat     = 4
	TypeDouble    = 5
	TypeByteArray = 6
	TypeFixed     = 7

	ConvUint32 = 13
	ConvUint64 = 14

	RepRequired = 0
	RepOptional = 1
	RepRepeated = 2

	EncPlain          = 0
	EncPlainDict      = 2
	EncRLE            = 3
	EncBitPacked      = 4
	EncDeltaBinary    = 5
	EncDeltaLenBA     = 6
	EncDeltaBA        = 7
	EncRLEDict        = 8
	EncByteStreamSplt = 9

	CodecUncompressed = 0
	CodecSnappy       = 1
	CodecGzip         = 2
	CodecLZO          = 3
	CodecBrotli       = 4
	CodecLZ4          = 5
	CodecZstd         = 6
	CodecLZ4Raw       = 7

	PageData  = 0
	PageIndex = 1
	PageDict  = 2
	PageV2    = 3
)

type Statistics struct {
	Max, Min           []byte
	NullCount          *int64
	DistinctCount      *int64
	MaxValue, MinValue []byte
}

type DataPageHeader struct {
	NumValues int32
	Encoding  int32
	DefEnc    int32
	RepEnc    int32
	Stats     *Statistics
}

type DictPageHeader struct {
	NumValues int32
	Encoding  int32
	IsSorted  *bool
}

type DataPageHeaderV2 struct {
	NumValues, NumNulls, NumRows int32
	Encoding                     int32
	DefLen, RepLen               int32
	IsCompressed                 *bool
	Stats                        *Statistics
}

type PageHeader struct {
	Type         int32
	Uncompressed int32
	Compressed   int32
	CRC          *int32
	Data         *DataPageHeader
	Index        *struct{}
	Dict         *DictPageHeader
	V2           *DataPageHeaderV2
}

type SchemaElement struct {
	Type        *int32
	TypeLength  *int32
	Rep         *int32
	Name        string
	NumChildren *int32
	Converted   *int32
	Scale       *int32
	Precision   *int32
	FieldID     *int32
	HasLogical  bool
}

type KeyValue struct {
	Key   string
	Value *string
}

type PageEncodingStats struct {
	PageType, Encoding, Count int32
}

type ColumnMetaData struct {
	Type              int32
	Encodings         []int32
	Path              []string
	Codec             int32
	NumValues         int64
	TotalUncompressed int64
	TotalCompressed   int64
	KV                []KeyValue
	DataPageOffset    int64
	IndexPageOffset   *int64
	DictPageOffset    *int64
	Stats             *Statistics
	EncodingStats     []PageEncodingStats
}

type ColumnChunk struct {
	FilePath   *string
	FileOffset int64
	Meta       *ColumnMetaData
}

type RowGroup struct {
	Columns       []ColumnChunk
	TotalByteSize int64
	NumRows       int64
	// fields 5..7 of newer parquet.thrift (file_offset, total_compressed_size, ordinal)
	FileOffset          *int64
	TotalCompressedSize *int64
	Ordinal             *int16
}

type FileMetaData struct {
	Version      int32
	Schema       []SchemaElement
	NumRows      int64
	RowGroups    []RowGroup
	KV           []KeyValue
	CreatedBy    *string
	ColumnOrders int // number of column_orders entries (all TYPE_ORDER), -1 = absent
}

// ---------------------------------------------------------------------------
// decoding helpers

type fmap map[int16]TVal

func toMap(fs []TField, what string) (fmap, error) {
	m := fmap{}
	for _, f := range fs {
		if _, dup := m[f.ID]; dup {
			return nil, fmt.Errorf("%s: duplicate field %d", what, f.ID)
		}
		m[f.ID] = f.V
	}
	return m, nil
}

type dec struct {
	m    fmap
	what string
	err  error
}

func (d *dec) fail(f string, a ...interface{}) {
	if d.err == nil {
		d.err = fmt.Errorf("%s: %s", d.what, fmt.Sprintf(f, a...))
	}
}

func (d *dec) get(id int16, req bool, types ...byte) (TVal, bool) {
	v, ok := d.m[id]
	if !ok {
		if req {
			d.fail("required field %d missing", id)
		}
		return TVal{}, false
	}
	for _, t := range types {
		if v.Type == t {
			return v, true
		}
	}
	d.fail("field %d has thrift type %d", id, v.Type)
	return TVal{}, false
}

func (d *dec) i32(id int16, req bool) (int32, bool) {
	v, ok := d.get(id, req, tI32)
	return int32(v.I), ok
}
func (d *dec) i64(id int16, req bool) (int64, bool) {
	v, ok := d.get(id, req, tI64)
	return v.I, ok
}
func (d *dec) pi32(id int16) *int32 {
	if v, ok := d.i32(id, false); ok {
		return &v
	}
	return nil
}
func (d *dec) pi64(id int16) *int64 {
	if v, ok := d.i64(id, false); ok {
		return &v
	}
	return nil
}
func (d *dec) bin(id int16, req bool) ([]byte, bool) {
	v, ok := d.get(id, req, tBinary)
	if ok && v.Bin == nil {
		v.Bin = []byte{}
	}
	return v.Bin, ok
}
func (d *dec) pstr(id int16) *string {
	if b, ok := d.bin(id, false); ok {
		s := string(b)
		return &s
	}
	return nil
}
func (d *dec) pbool(id int16) *bool {
	if v, ok := d.get(id, false, tTrue, tFalse); ok {
		b := v.Bool()
		return &b
	}
	return nil
}
func (d *dec) list(id int16, req bool, elem byte) ([]TVal, bool) {
	v, ok := d.get(id, req, tList)
	if !ok {
		return nil, false
	}
	if len(v.List) > 0 && v.Elem != elem {
		d.fail("field %d: list element type %d, want %d", id, v.Elem, elem)
		return nil, false
	}
	return v.List, true
}
func (d *dec) strct(id int16, req bool) ([]TField, bool) {
	v, ok := d.get(id, req, tStruct)
	return v.Fields, ok
}

func newDec(fs []TField, what string) (*dec, error) {
	m, err := toMap(fs, what)
	if err != nil {
		return nil, err
	}
	return &dec{m: m, what: what}, nil
}

func decodeStats(fs []TField) (*Statistics, error) {
	d, err := newDec(fs, "Statistics")
	if err != nil {
		return nil, err
	}
	s := &Statistics{}
	s.Max, _ = d.bin(1, false)
	s.Min, _ = d.bin(2, false)
	s.NullCount = d.pi64(3)
	s.DistinctCount = d.pi64(4)
	s.MaxValue, _ = d.bin(5, false)
	s.MinValue, _ = d.bin(6, false)
	return s, d.err
}

// DecodePageHeader parses a PageHeader at the start of b, returning its length.
func DecodePageHeader(b []byte) (*PageHeader, int, error) {
	fs, n, err := ReadStruct(b)
	if err != nil {
		return nil, 0, fmt.Errorf("PageHeader: %w", err)
	}
	d, err := newDec(fs, "PageHeader")
	if err != nil {
		return nil, 0, err
	}
	ph := &PageHeader{}
	ph.Type, _ = d.i32(1, true)
	ph.Uncompressed, _ = d.i32(2, true)
	ph.Compressed, _ = d.i32(3, true)
	ph.CRC = d.pi32(4)
	if sf, ok := d.strct(5, false); ok {
		dd, err := newDec(sf, "DataPageHeader")
		if err != nil {
			return nil, 0, err
		}
		h := &DataPageHeader{}
		h.NumValues, _ = dd.i32(1, true)
		h.Encoding, _ = dd.i32(2, true)
		h.DefEnc, _ = dd.i32(3, true)
		h.RepEnc, _ = dd.i32(4, true)
		if st, ok := dd.strct(5, false); ok {
			h.Stats, err = decodeStats(st)
			if err != nil {
				return nil, 0, err
			}
		}
		if dd.err != nil {
			return nil, 0, dd.err
		}
		ph.Data = h
	}
	if _, ok := d.strct(6, false); ok {
		ph.Index = &struct{}{}
	}
	if sf, ok := d.strct(7, false); ok {
		dd, err := newDec(sf, "DictionaryPageHeader")
		if err != nil {
			return nil, 0, err
		}
		h := &DictPageHeader{}
		h.NumValues, _ = dd.i32(1, true)
		h.Encoding, _ = dd.i32(2, true)
		h.IsSorted = dd.pbool(3)
		if dd.err != nil {
			return nil, 0, dd.err
		}
		ph.Dict = h
	}
	if sf, ok := d.strct(8, false); ok {
		dd, err := newDec(sf, "DataPageHeaderV2")
		if err != nil {
			return nil, 0, err
		}
		h := &DataPageHeaderV2{}
		h.NumValues, _ = dd.i32(1, true)
		h.NumNulls, _ = dd.i32(2, true)
		h.NumRows, _ = dd.i32(3, true)
		h.Encoding, _ = dd.i32(4, true)
		h.DefLen, _ = dd.i32(5, true)
		h.RepLen, _ = dd.i32(6, true)
		h.IsCompressed = dd.pbool(7)
		if st, ok := dd.strct(8, false); ok {
			h.Stats, err = decodeStats(st)
			if err != nil {
				return nil, 0, err
			}
		}
		if dd.err != nil {
			return nil, 0, dd.err
		}
		ph.V2 = h
	}
	return ph, n, d.err
}

func decodeKVs(l []TVal) ([]KeyValue, error) {
	var out []KeyValue
	for _, e := range l {
		d, err := newDec(e.Fields, "KeyValue")
		if err != nil {
			return nil, err
		}
		k, _ := d.bin(1, true)
		out = append(out, KeyValue{Key: string(k), Value: d.pstr(2)})
		if d.err != nil {
			return nil, d.err
		}
	}
	return out, nil
}

func decodeColumnMeta(fs []TField) (*ColumnMetaData, error) {
	d, err := newDec(fs, "ColumnMetaData")
	if err != nil {
		return nil, err
	}
	m := &ColumnMetaData{}
	m.Type, _ = d.i32(1, true)
	if l, ok := d.list(2, true, tI32); ok {
		for _, e := range l {
			m.Encodings = append(m.Encodings, int32(e.I))
		}
	}
	if l, ok := d.list(3, true, tBinary); ok {
		for _, e := range l {
			m.Path = append(m.Path, string(e.Bin))
		}
	}
	m.Codec, _ = d.i32(4, true)
	m.NumValues, _ = d.i64(5, true)
	m.TotalUncompressed, _ = d.i64(6, true)
	m.TotalCompressed, _ = d.i64(7, true)
	if l, ok := d.list(8, false, tStruct); ok {
		m.KV, err = decodeKVs(l)
		if err != nil {
			return nil, err
		}
	}
	m.DataPageOffset, _ = d.i64(9, true)
	m.IndexPageOffset = d.pi64(10)
	m.DictPageOffset = d.pi64(11)
	if st, ok := d.strct(12, false); ok {
		m.Stats, err = decodeStats(st)
		if err != nil {
			return nil, err
		}
	}
	if l, ok := d.list(13, false, tStruct); ok {
		for _, e := range l {
			dd, err := newDec(e.Fields, "PageEncodingStats")
			if err != nil {
				return nil, err
			}
			var p PageEncodingStats
			p.PageType, _ = dd.i32(1, true)
			p.Encoding, _ = dd.i32(2, true)
			p.Count, _ = dd.i32(3, true)
			if dd.err != nil {
				return nil, dd.err
			}
			m.EncodingStats = append(m.EncodingStats, p)
		}
	}
	return m, d.err
}

// DecodeFileMetaData parses the footer bytes (which must be consumed exactly).
func DecodeFileMetaData(b []byte) (*FileMetaData, error) {
	fs, n, err := ReadStruct(b)
	if err != nil {
		return nil, fmt.Errorf("FileMetaData: %w", err)
	}
	if n != len(b) {
		return nil, fmt.Errorf("FileMetaData: struct is %d bytes but footer length says %d", n, len(b))
	}
	d, err := newDec(fs, "FileMetaData")
	if err != nil {
		return nil, err
	}
	m := &FileMetaData{ColumnOrders: -1}
	m.Version, _ = d.i32(1, true)
	if l, ok := d.list(2, true, tStruct); ok {
		for _, e := range l {
			dd, err := newDec(e.Fields, "SchemaElement")
			if err != nil {
				return nil, err
			}
			var se SchemaElement
			se.Type = dd.pi32(1)
			se.TypeLength = dd.pi32(2)
			se.Rep = dd.pi32(3)
			nm, _ := dd.bin(4, true)
			se.Name = string(nm)
			se.NumChildren = dd.pi32(5)
			se.Converted = dd.pi32(6)
			se.Scale = dd.pi32(7)
			se.Precision = dd.pi32(8)
			se.FieldID = dd.pi32(9)
			_, se.HasLogical = dd.strct(10, false)
			if dd.err != nil {
				return nil, dd.err
			}
			m.Schema = append(m.Schema, se)
		}
	}
	m.NumRows, _ = d.i64(3, true)
	if l, ok := d.list(4, true, tStruct); ok {
		for _, e := range l {
			dd, err := newDec(e.Fields, "RowGroup")
			if err != nil {
				return nil, err
			}
			var rg RowGroup
			if cl, ok := dd.list(1, true, tStruct); ok {
				for _, ce := range cl {
					dc, err := newDec(ce.Fields, "ColumnChunk")
					if err != nil {
						return nil, err
					}
					var cc ColumnChunk
					cc.FilePath = dc.pstr(1)
					cc.FileOffset, _ = dc.i64(2, true)
					if mf, ok := dc.strct(3, false); ok {
						cc.Meta, err = decodeColumnMeta(mf)
						if err != nil {
							return nil, err
						}
					}
					if dc.err != nil {
						return nil, dc.err
					}
					rg.Columns = append(rg.Columns, cc)
				}
			}
			rg.TotalByteSize, _ = dd.i64(2, true)
			rg.NumRows, _ = dd.i64(3, true)
			rg.FileOffset = dd.pi64(5)
			rg.TotalCompressedSize = dd.pi64(6)
			if v, ok := dd.get(7, false, tI16); ok {
				x := int16(v.I)
				rg.Ordinal = &x
			}
			if dd.err != nil {
				return nil, dd.err
			}
			m.RowGroups = append(m.RowGroups, rg)
		}
	}
	if l, ok := d.list(5, false, tStruct); ok {
		m.KV, err = decodeKVs(l)
		if err != nil {
			return nil, err
		}
	}
	m.CreatedBy = d.pstr(6)
	if l, ok := d.list(7, false, tStruct); ok {
		m.ColumnOrders = len(l)
	}
	return m, d.err
}

// ---------------------------------------------------------------------------
// encoding (foreign writer)

type fb struct{ f []TField }

func (b *fb) add(id int16, v TVal)  { b.f = append(b.f, TField{ID: id, V: v}) }
func (b *fb) i32(id int16, v int32) { b.add(id, TI32(v)) }
func (b *fb) i64(id int16, v int64) { b.add(id, TI64(v)) }
func (b *fb) pi32(id int16, v *int32) {
	if v != nil {
		b.i32(id, *v)
	}
}
func (b *fb) pi64(id int16, v *int64) {
	if v != nil {
		b.i64(id, *v)
	}
}
func (b *fb) bin(id int16, v []byte) {
	if v != nil {
		b.add(id, TBin(v))
	}
}
func (b *fb) pstr(id int16, v *string) {
	if v != nil {
		b.add(id, TStr(*v))
	}
}
func (b *fb) pbool(id int16, v *bool) {
	if v != nil {
		b.add(id, TBoolV(*v))
	}
}

func encStats(s *Statistics) TVal {
	var b fb
	b.bin(1, s.Max)
	b.bin(2, s.Min)
	b.pi64(3, s.NullCount)
	b.pi64(4, s.DistinctCount)
	b.bin(5, s.MaxValue)
	b.bin(6, s.MinValue)
	return TStructV(b.f)
}

// Encode serialises a page header.
func (ph *PageHeader) Encode() []byte {
	var b fb
	b.i32(1, ph.Type)
	b.i32(2, ph.Uncompressed)
	b.i32(3, ph.Compressed)
	b.pi32(4, ph.CRC)
	if h := ph.Data; h != nil {
		var d fb
		d.i32(1, h.NumValues)
		d.i32(2, h.Encoding)
		d.i32(3, h.DefEnc)
		d.i32(4, h.RepEnc)
		if h.Stats != nil {
			d.add(5, encStats(h.Stats))
		}
		b.add(5, TStructV(d.f))
	}
	if ph.Index != nil {
		b.add(6, TStructV(nil))
	}
	if h := ph.Dict; h != nil {
		var d fb
		d.i32(1, h.NumValues)
		d.i32(2, h.Encoding)
		d.pbool(3, h.IsSorted)
		b.add(7, TStructV(d.f))
	}
	if h := ph.V2; h != nil {
		var d fb
		d.i32(1, h.NumValues)
		d.i32(2, h.NumNulls)
		d.i32(3, h.NumRows)
		d.i32(4, h.Encoding)
		d.i32(5, h.DefLen)
		d.i32(6, h.RepLen)
		d.pbool(7, h.IsCompressed)
		if h.Stats != nil {
			d.add(8, encStats(h.Stats))
		}
		b.add(8, TStructV(d.f))
	}
	return WriteStruct(b.f)
}

func encKVs(kv []KeyValue) TVal {
	var l []TVal
	for _, e := range kv {
		var b fb
		b.add(1, TStr(e.Key))
		b.pstr(2, e.Value)
		l = append(l, TStructV(b.f))
	}
	return TListV(tStruct, l)
}

// Encode serialises a footer.
func (m *FileMetaData) Encode() []byte {
	var b fb
	b.i32(1, m.Version)
	var sl []TVal
	for _, se := range m.Schema {
		var s fb
		s.pi32(1, se.Type)
		s.pi32(2, se.TypeLength)
		s.pi32(3, se.Rep)
		s.add(4, TStr(se.Name))
		s.pi32(5, se.NumChildren)
		s.pi32(6, se.Converted)
		s.pi32(7, se.Scale)
		s.pi32(8, se.Precision)
		s.pi32(9, se.FieldID)
		sl = append(sl, TStructV(s.f))
	}
	b.add(2, TListV(tStruct, sl))
	b.i64(3, m.NumRows)
	var rl []TVal
	for _, rg := range m.RowGroups {
		var r fb
		var cl []TVal
		for _, cc := range rg.Columns {
			var c fb
			c.pstr(1, cc.FilePath)
			c.i64(2, cc.FileOffset)
			if md := cc.Meta; md != nil {
				var x fb
				x.i32(1, md.Type)
				var el []TVal
				for _, e := range md.Encodings {
					el = append(el, TI32(e))
				}
				x.add(2, TListV(tI32, el))
				var pl []TVal
				for _, p := range md.Path {
					pl = append(pl, TStr(p))
				}
				x.add(3, TListV(tBinary, pl))
				x.i32(4, md.Codec)
				x.i64(5, md.NumValues)
				x.i64(6, md.TotalUncompressed)
				x.i64(7, md.TotalCompressed)
				if md.KV != nil {
					x.add(8, encKVs(md.KV))
				}
				x.i64(9, md.DataPageOffset)
				x.pi64(10, md.IndexPageOffset)
				x.pi64(11, md.DictPageOffset)
				if md.Stats != nil {
					x.add(12, encStats(md.Stats))
				}
				if md.EncodingStats != nil {
					var sl []TVal
					for _, e := range md.EncodingStats {
						var y fb
						y.i32(1, e.PageType)
						y.i32(2, e.Encoding)
						y.i32(3, e.Count)
						sl = append(sl, TStructV(y.f))
					}
					x.add(13, TListV(tStruct, sl))
				}
				c.add(3, TStructV(x.f))
			}
			cl = append(cl, TStructV(c.f))
		}
		r.add(1, TListV(tStruct, cl))
		r.i64(2, rg.TotalByteSize)
		r.i64(3, rg.NumRows)
		r.pi64(5, rg.FileOffset)
		r.pi64(6, rg.TotalCompressedSize)
		if rg.Ordinal != nil {
			r.add(7, TI16(*rg.Ordinal))
		}
		rl = append(rl, TStructV(r.f))
	}
	b.add(4, TListV(tStruct, rl))
	if m.KV != nil {
		b.add(5, encKVs(m.KV))
	}
	b.pstr(6, m.CreatedBy)
	if m.ColumnOrders >= 0 {
		var l []TVal
		for i := 0; i < m.ColumnOrders; i++ {
			var o fb
			o.add(1, TStructV(nil))
			l = append(l, TStructV(o.f))
		}
		b.add(7, TListV(tStruct, l))
	}
	return WriteStruct(b.f)
}

module verifharness

go 1.23

toolchain go1.23.5

require (
	github.com/golang/snappy v0.0.2
	github.com/parsyl/parquet v0.0.0
	pgregory.net/rapid v1.3.0
)

require (
	github.com/apache/thrift v0.18.1 // indirect
	github.com/valyala/bytebufferpool v1.0.0 // indirect
)

replace github.com/parsyl/parquet => /repo

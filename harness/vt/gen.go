package vt

import (
	"math"

	"pgregory.net/rapid"
)

// GenCfg bounds the generated values. The bounds exist for cost only
// (the RLE write buffer is quadratic in level count); they are not limits
// the code under test imposes.
type GenCfg struct {
	MaxList     int  // usual upper bound of list length (geometric-ish)
	LongList    int  // occasional long list length bound (0 = never)
	MaxStr      int  // usual max string length
	LongStr     int  // occasional long string
	NullPct     int  // probability (percent) an optional is nil
	Adversarial bool // bias scalars to extremes
	HugeStr     int  // > 0: about 0.2 % of the strings have a length in [HugeStr/2, HugeStr]
	UniformStr  bool // ordinary strings have a length in [MaxStr/2, MaxStr] instead of rapid's small-biased lengths
	// Class selects an adversarial value class for all scalars of a workload:
	// "" (mixed), "neg" (all negative / high bit set), "tiny" (two-value domains, many equal),
	// "nan" (floats mostly NaN/Inf/zero), "sentinel" (strings around "__#NIL#__"), "longstr" (60..146-byte strings with long common prefixes).
	Class string
}

var DefaultGen = GenCfg{MaxList: 4, LongList: 0, MaxStr: 12, LongStr: 300, NullPct: 33, Adversarial: true}

var i32Specials = []int32{0, 1, -1, math.MaxInt32, math.MinInt32, 2, -2, 127, 128, 255, 256}
var i64Specials = []int64{0, 1, -1, math.MaxInt64, math.MinInt64, math.MaxInt32, math.MinInt32, 1 << 32, -(1 << 32)}
var u32Specials = []uint32{0, 1, math.MaxUint32, 1 << 31, 1<<31 - 1, 1<<31 + 1}
var u64Specials = []uint64{0, 1, math.MaxUint64, 1 << 63, 1<<63 - 1, 1<<63 + 1, 1 << 32}
var f32Specials = []uint32{0, 0x80000000, 0x7f800000, 0xff800000, 0x7fc00000, 0x7fc00001, 0xffc12345, 0x7f800001, 1, 0x80000001, 0x7f7fffff, 0xff7fffff, 0x3f800000}
var f64Specials = []uint64{0, 0x8000000000000000, 0x7ff0000000000000, 0xfff0000000000000, 0x7ff8000000000000, 0x7ff8000000000001, 0xfff8123456789abc, 0x7ff0000000000001, 1, 0x8000000000000001, 0x7fefffffffffffff, 0xffefffffffffffff, 0x3ff0000000000000}
var strSpecials = []string{"", "a", "__#NIL#__", "__#NIL#_", "__#NIL#__x", "\x00", "\xff\xfe", "z", "Z", "\xc3\x28", "ab", "abc", "__", "~"}

// GenLeaf draws the bits/bytes of one leaf value.
func GenLeaf(t *rapid.T, k Kind, cfg GenCfg, label string) *Val {
	if v := genClassLeaf(t, k, cfg, label); v != nil {
		return v
	}
	special := cfg.Adversarial && rapid.IntRange(0, 2).Draw(t, label+"?sp") == 0
	switch k {
	case Int32:
		if special {
			return &Val{U: uint64(uint32(rapid.SampledFrom(i32Specials).Draw(t, label)))}
		}
		return &Val{U: uint64(uint32(rapid.Int32().Draw(t, label)))}
	case Uint32:
		if special {
			return &Val{U: uint64(rapid.SampledFrom(u32Specials).Draw(t, label))}
		}
		return &Val{U: uint64(rapid.Uint32().Draw(t, label))}
	case Int64:
		if special {
			return &Val{U: uint64(rapid.SampledFrom(i64Specials).Draw(t, label))}
		}
		return &Val{U: uint64(rapid.Int64().Draw(t, label))}
	case Uint64:
		if special {
			return &Val{U: rapid.SampledFrom(u64Specials).Draw(t, label)}
		}
		return &Val{U: rapid.Uint64().Draw(t, label)}
	case Float32:
		if special {
			return &Val{U: uint64(rapid.SampledFrom(f32Specials).Draw(t, label))}
		}
		return &Val{U: uint64(rapid.Uint32().Draw(t, label))}
	case Float64:
		if special {
			return &Val{U: rapid.SampledFrom(f64Specials).Draw(t, label)}
		}
		return &Val{U: rapid.Uint64().Draw(t, label)}
	case Bool:
		if rapid.Bool().Draw(t, label) {
			return &Val{U: 1}
		}
		return &Val{}
	case String:
		if special {
			return &Val{S: Bytes(rapid.SampledFrom(strSpecials).Draw(t, label))}
		}
		if h := rapid.IntRange(0, 999).Draw(t, label+"?huge"); cfg.HugeStr > 0 && h >= 500 && h < 502 {
			// rarely: a string beyond 64 KiB-ish limits (a window in the middle of the range is hit with about the nominal 0.2 %)
			n := rapid.IntRange(cfg.HugeStr/2, cfg.HugeStr).Draw(t, label+"#hugelen")
			return &Val{S: expandBytes(rapid.Uint64().Draw(t, label+"#seed"), n)}
		}
		if cfg.LongStr > 0 && rapid.IntRange(0, 39).Draw(t, label+"?long") == 0 {
			// a long string: length in the upper half of the bound, incompressible-looking content expanded
			// from one drawn word (drawing tens of thousands of bytes one by one would exhaust rapid's budget)
			n := rapid.IntRange(cfg.LongStr/2, cfg.LongStr).Draw(t, label+"#longlen")
			return &Val{S: expandBytes(rapid.Uint64().Draw(t, label+"#seed"), n)}
		}
		if cfg.UniformStr {
			n := rapid.IntRange(cfg.MaxStr/2, cfg.MaxStr).Draw(t, label+"#len")
			return &Val{S: expandBytes(rapid.Uint64().Draw(t, label+"#seed"), n)}
		}
		b := rapid.SliceOfN(rapid.Byte(), 0, cfg.MaxStr).Draw(t, label)
		return &Val{S: Bytes(b)}
	}
	panic("bad kind")
}

// GenRecord draws a record of the given root shape.
func GenRecord(t *rapid.T, root *Node, cfg GenCfg) *Val {
	return genGroup(t, root, cfg)
}

func genGroup(t *rapid.T, g *Node, cfg GenCfg) *Val {
	out := &Val{F: make([]*Val, len(g.Children))}
	for i, c := range g.Children {
		out.F[i] = genNode(t, c, cfg)
	}
	return out
}

// inner returns the configuration used below the first repeated level: long lists are only
// drawn at the outermost repeated level (nested long lists multiply).
func (c GenCfg) inner() GenCfg {
	c.LongList = 0
	return c
}

func genInner(t *rapid.T, n *Node, cfg GenCfg) *Val {
	if n.Kind == Group {
		return genGroup(t, n, cfg)
	}
	return GenLeaf(t, n.Kind, cfg, n.Name)
}

func genNode(t *rapid.T, n *Node, cfg GenCfg) *Val {
	switch n.Rep {
	case Optional:
		if rapid.IntRange(0, 99).Draw(t, n.Name+"?nil") < cfg.NullPct {
			return &Val{Null: true}
		}
		return genInner(t, n, cfg)
	case Repeated:
		max := cfg.MaxList
		if cfg.LongList > 0 && rapid.IntRange(0, 49).Draw(t, n.Name+"?longlist") == 0 {
			max = cfg.LongList
		}
		ln := rapid.IntRange(0, max).Draw(t, n.Name+"#len")
		out := &Val{}
		if ln == 0 && rapid.Bool().Draw(t, n.Name+"?emptyslice") {
			out.E = true
		}
		for i := 0; i < ln; i++ {
			out.L = append(out.L, genInner(t, n, cfg.inner()))
		}
		return out
	}
	return genInner(t, n, cfg)
}

// Clone deep-copies a value.
func Clone(v *Val) *Val {
	if v == nil {
		return nil
	}
	o := &Val{Null: v.Null, U: v.U, E: v.E}
	if v.S != nil {
		o.S = append(Bytes{}, v.S...)
	}
	if v.L != nil {
		o.L = make([]*Val, len(v.L))
		for i, e := range v.L {
			o.L[i] = Clone(e)
		}
	}
	if v.F != nil {
		o.F = make([]*Val, len(v.F))
		for i, e := range v.F {
			o.F[i] = Clone(e)
		}
	}
	return o
}

func genClassLeaf(t *rapid.T, k Kind, cfg GenCfg, label string) *Val {
	switch cfg.Class {
	case "neg":
		switch k {
		case Int32:
			return &Val{U: uint64(uint32(rapid.Int32Range(math.MinInt32, -1).Draw(t, label)))}
		case Int64:
			return &Val{U: uint64(rapid.Int64Range(math.MinInt64, -1).Draw(t, label))}
		case Uint32:
			return &Val{U: uint64(rapid.Uint32Range(1<<31, math.MaxUint32).Draw(t, label))}
		case Uint64:
			return &Val{U: rapid.Uint64Range(1<<63, math.MaxUint64).Draw(t, label)}
		case Float32:
			return &Val{U: uint64(rapid.Uint32().Draw(t, label) | 0x80000000)}
		case Float64:
			return &Val{U: rapid.Uint64().Draw(t, label) | 0x8000000000000000}
		case String:
			b := rapid.SliceOfN(rapid.ByteRange(0x80, 0xff), 1, 6).Draw(t, label)
			return &Val{S: Bytes(b)}
		}
	case "tiny":
		switch k {
		case Int32:
			return &Val{U: uint64(uint32(rapid.SampledFrom([]int32{-7, 3}).Draw(t, label)))}
		case Int64:
			return &Val{U: uint64(rapid.SampledFrom([]int64{-9, -8}).Draw(t, label))}
		case Uint32:
			return &Val{U: uint64(rapid.SampledFrom([]uint32{5, 1 << 31}).Draw(t, label))}
		case Uint64:
			return &Val{U: rapid.SampledFrom([]uint64{1 << 63, 1<<63 + 1}).Draw(t, label)}
		case Float32:
			return &Val{U: uint64(rapid.SampledFrom([]uint32{0xbf800000, 0xc0000000}).Draw(t, label))}
		case Float64:
			return &Val{U: rapid.SampledFrom([]uint64{0x3ff0000000000000, 0x3ff0000000000000}).Draw(t, label)}
		case String:
			return &Val{S: Bytes(rapid.SampledFrom([]string{"", "a"}).Draw(t, label))}
		}
	case "nan":
		switch k {
		case Float32:
			return &Val{U: uint64(rapid.SampledFrom(f32Specials).Draw(t, label))}
		case Float64:
			return &Val{U: rapid.SampledFrom(f64Specials).Draw(t, label)}
		}
	case "longstr":
		if k == String {
			// long strings sharing a long prefix: the extreme value of a page is longer than any fixed-size cut-off
			n := rapid.IntRange(60, 140).Draw(t, label+"#plen")
			b := make([]byte, n)
			for i := range b {
				b[i] = byte('a' + i%3)
			}
			suf := rapid.SliceOfN(rapid.ByteRange('a', 'z'), 0, 6).Draw(t, label)
			return &Val{S: Bytes(append(b, suf...))}
		}
	case "thrift-nest":
		if k == String {
			// long runs of one byte that a thrift compact decoder reads as "field of type struct" headers:
			// a truncated file whose junk footer offset lands inside such a run drives the decoder into deep recursion
			c := rapid.SampledFrom([]byte{',', '<', 'L', '\\', 'l', '|'}).Draw(t, label+"#c")
			n := rapid.IntRange(66, 140).Draw(t, label+"#n")
			b := make([]byte, n)
			for i := range b {
				b[i] = c
			}
			return &Val{S: Bytes(b)}
		}
	case "tail-forgery":
		// values whose bytes spell the end of a Parquet file - a 4-byte little-endian footer length (0 or small) followed by the
		// magic "PAR1": a file cut right after such a value ends in something that looks like a complete trailer
		switch k {
		case Int32:
			return &Val{U: uint64(rapid.SampledFrom([]uint32{0x31524150, 0, 0x31524150, 1, 2, 16}).Draw(t, label))}
		case Int64:
			return &Val{U: rapid.SampledFrom([]uint64{0x3152415000000000, 0x3152415000000001, 0x3152415000000002, 0x3152415000000010, 0x3152415031524150}).Draw(t, label)}
		case String:
			n := rapid.SampledFrom([]byte{0, 0, 1, 2, 3, 8, 16}).Draw(t, label+"#len")
			pre := rapid.SliceOfN(rapid.ByteRange(0, 0x19), 0, 20).Draw(t, label)
			return &Val{S: Bytes(append(append(pre, n, 0, 0, 0), "PAR1"...))}
		}
	case "sentinel":
		if k == String {
			return &Val{S: Bytes(rapid.SampledFrom([]string{"__#NIL#__", "__#NIL#__", "__#NIL#_", "__#NIL#__a", "z", "", "A", "__#NIL#", "\xff"}).Draw(t, label))}
		}
	}
	return nil
}

// expandBytes produces n bytes from a 64-bit word with a xorshift generator (all byte values occur).
func expandBytes(seed uint64, n int) Bytes {
	if seed == 0 {
		seed = 0x9e3779b97f4a7c15
	}
	out := make(Bytes, n)
	if seed%4 == 1 {
		// a quarter of the long strings are highly compressible: one letter repeated
		c := byte('b' + (seed>>8)%24)
		for i := range out {
			out[i] = c
		}
		return out
	}
	x := seed
	for i := range out {
		x ^= x << 13
		x ^= x >> 7
		x ^= x << 17
		out[i] = byte(x >> 24)
	}
	return out
}

package vt

import (
	"encoding/hex"
	"fmt"
	"math"
	"reflect"
	"strconv"
	"strings"
)

// Val is a generic value for a schema node.
//
//	required leaf:  U (numeric bits / bool) or S (string bytes)
//	optional X:     Null, or the fields of X
//	repeated X:     L = elements, each a Val holding one X (never Null)
//	group:          F = one Val per child node
type Val struct {
	Null bool   `json:"n,omitempty"`
	U    uint64 `json:"u,omitempty"`
	S    Bytes  `json:"s,omitempty"`
	L    []*Val `json:"l,omitempty"`
	E    bool   `json:"e,omitempty"` // repeated with len 0: build an empty non-nil slice instead of nil
	F    []*Val `json:"f,omitempty"`
}

// Bytes is a byte string that marshals as hex (keeps non-UTF-8 content).
type Bytes []byte

func (b Bytes) MarshalText() ([]byte, error) { return []byte(hex.EncodeToString(b)), nil }
func (b *Bytes) UnmarshalText(t []byte) error {
	x, err := hex.DecodeString(string(t))
	*b = x
	return err
}

// Record is the Val of a root group.
type Record = Val

// Equal compares two values of the same node (nil list == empty list by construction).
func Equal(n *Node, a, b *Val) bool { return Diff(n, a, b, "") == "" }

// Diff returns "" if equal or a description of the first difference.
func Diff(n *Node, a, b *Val, path string) string {
	p := path + "/" + n.Name
	switch n.Rep {
	case Optional:
		if a.Null != b.Null {
			return fmt.Sprintf("%s: null=%v vs null=%v", p, a.Null, b.Null)
		}
		if a.Null {
			return ""
		}
		return diffInner(n, a, b, p)
	case Repeated:
		if len(a.L) != len(b.L) {
			return fmt.Sprintf("%s: len %d vs %d", p, len(a.L), len(b.L))
		}
		for i := range a.L {
			if d := diffInner(n, a.L[i], b.L[i], fmt.Sprintf("%s[%d]", p, i)); d != "" {
				return d
			}
		}
		return ""
	}
	return diffInner(n, a, b, p)
}

func diffInner(n *Node, a, b *Val, p string) string {
	switch n.Kind {
	case Group:
		if len(a.F) != len(n.Children) || len(b.F) != len(n.Children) {
			return fmt.Sprintf("%s: malformed group value", p)
		}
		for i, c := range n.Children {
			if d := Diff(c, a.F[i], b.F[i], p); d != "" {
				return d
			}
		}
		return ""
	case String:
		if string(a.S) != string(b.S) {
			return fmt.Sprintf("%s: %q vs %q", p, trunc(a.S), trunc(b.S))
		}
		return ""
	default:
		if a.U != b.U {
			return fmt.Sprintf("%s: %s vs %s", p, fmtLeaf(n.Kind, a), fmtLeaf(n.Kind, b))
		}
		return ""
	}
}

func trunc(b []byte) string {
	if len(b) > 40 {
		return string(b[:40]) + fmt.Sprintf("...(%d)", len(b))
	}
	return string(b)
}

func fmtLeaf(k Kind, v *Val) string {
	switch k {
	case Int32:
		return strconv.FormatInt(int64(int32(v.U)), 10)
	case Uint32:
		return strconv.FormatUint(uint64(uint32(v.U)), 10)
	case Int64:
		return strconv.FormatInt(int64(v.U), 10)
	case Uint64:
		return strconv.FormatUint(v.U, 10)
	case Float32:
		f := math.Float32frombits(uint32(v.U))
		if f != f {
			return fmt.Sprintf("NaN32(%#x)", uint32(v.U))
		}
		return strconv.FormatFloat(float64(f), 'g', -1, 32)
	case Float64:
		f := math.Float64frombits(v.U)
		if f != f {
			return fmt.Sprintf("NaN64(%#x)", v.U)
		}
		return strconv.FormatFloat(f, 'g', -1, 64)
	case Bool:
		if v.U != 0 {
			return "true"
		}
		return "false"
	case String:
		return strconv.Quote(trunc(v.S))
	}
	return "?"
}

// Render writes a compact human-readable form of a value (for evidence samples).
func Render(n *Node, v *Val) string {
	var sb strings.Builder
	render(&sb, n, v)
	s := sb.String()
	if len(s) > 600 {
		s = s[:600] + "..."
	}
	return s
}

func render(sb *strings.Builder, n *Node, v *Val) {
	switch n.Rep {
	case Optional:
		if v.Null {
			sb.WriteString("nil")
			return
		}
		sb.WriteString("&")
		renderInner(sb, n, v)
	case Repeated:
		sb.WriteString("[")
		for i, e := range v.L {
			if i > 0 {
				sb.WriteString(" ")
			}
			if i >= 6 {
				fmt.Fprintf(sb, "...(%d)", len(v.L))
				break
			}
			renderInner(sb, n, e)
		}
		sb.WriteString("]")
	default:
		renderInner(sb, n, v)
	}
}

func renderInner(sb *strings.Builder, n *Node, v *Val) {
	if n.Kind != Group {
		sb.WriteString(fmtLeaf(n.Kind, v))
		return
	}
	sb.WriteString("{")
	for i, c := range n.Children {
		if i > 0 {
			sb.WriteString(" ")
		}
		sb.WriteString(c.Name + ":")
		render(sb, c, v.F[i])
	}
	sb.WriteString("}")
}

// ---------------------------------------------------------------------------
// reflection bridge

// Build creates a Go struct value (reflect.Value of the root struct type) from a record.
// If junk is true, excluded fields are filled with non-zero junk where the
// bridge knows how (ints, strings, bools, floats, pointers/slices thereof).
func Build(root *Node, rec *Val, junk bool) reflect.Value {
	v := reflect.New(root.GoType).Elem()
	buildGroup(root, rec, v, junk)
	return v
}

func buildGroup(g *Node, val *Val, sv reflect.Value, junk bool) {
	for i, c := range g.Children {
		fv := sv.FieldByIndex(c.Index)
		cv := val.F[i]
		switch c.Rep {
		case Required:
			buildInner(c, cv, fv, junk)
		case Optional:
			if cv.Null {
				continue
			}
			p := reflect.New(fv.Type().Elem())
			buildInner(c, cv, p.Elem(), junk)
			fv.Set(p)
		case Repeated:
			if len(cv.L) == 0 && !cv.E {
				continue // nil slice
			}
			s := reflect.MakeSlice(fv.Type(), len(cv.L), len(cv.L))
			for j, e := range cv.L {
				buildInner(c, e, s.Index(j), junk)
			}
			fv.Set(s)
		}
	}
	if junk {
		for _, idx := range g.Excluded {
			setJunk(sv.FieldByIndex(idx))
		}
	}
}

func buildInner(n *Node, v *Val, fv reflect.Value, junk bool) {
	switch n.Kind {
	case Group:
		buildGroup(n, v, fv, junk)
	case Int32:
		fv.SetInt(int64(int32(v.U)))
	case Int64:
		fv.SetInt(int64(v.U))
	case Uint32:
		fv.SetUint(uint64(uint32(v.U)))
	case Uint64:
		fv.SetUint(v.U)
	case Float32:
		// go through unsafe-free bit preserving path
		f := math.Float32frombits(uint32(v.U))
		setFloat32(fv, f)
	case Float64:
		fv.Set(reflect.ValueOf(math.Float64frombits(v.U)))
	case Bool:
		fv.SetBool(v.U != 0)
	case String:
		fv.SetString(string(v.S))
	}
}

func setFloat32(fv reflect.Value, f float32) {
	// reflect.Value.SetFloat takes a float64; float32 -> float64 -> float32
	// conversion of a signalling NaN may quieten it, so set through Set.
	fv.Set(reflect.ValueOf(f))
}

func setJunk(fv reflect.Value) {
	if !fv.CanSet() {
		return // unexported fields cannot be set through reflection
	}
	switch fv.Kind() {
	case reflect.Int, reflect.Int8, reflect.Int16, reflect.Int32, reflect.Int64:
		fv.SetInt(77)
	case reflect.Uint, reflect.Uint8, reflect.Uint16, reflect.Uint32, reflect.Uint64:
		fv.SetUint(78)
	case reflect.Float32, reflect.Float64:
		fv.SetFloat(7.5)
	case reflect.String:
		fv.SetString("junk")
	case reflect.Bool:
		fv.SetBool(true)
	case reflect.Ptr:
		p := reflect.New(fv.Type().Elem())
		setJunk(p.Elem())
		fv.Set(p)
	case reflect.Slice:
		s := reflect.MakeSlice(fv.Type(), 2, 2)
		setJunk(s.Index(0))
		fv.Set(s)
	case reflect.Struct:
		for i := 0; i < fv.NumField(); i++ {
			setJunk(fv.Field(i))
		}
	}
}

// Extract converts a Go struct value back into a record. It also reports
// whether every excluded field is the zero value.
func Extract(root *Node, sv reflect.Value) (*Val, bool) {
	zero := true
	v := extractGroup(root, sv, &zero)
	return v, zero
}

func extractGroup(g *Node, sv reflect.Value, zero *bool) *Val {
	out := &Val{F: make([]*Val, len(g.Children))}
	for i, c := range g.Children {
		fv := sv.FieldByIndex(c.Index)
		switch c.Rep {
		case Required:
			out.F[i] = extractInner(c, fv, zero)
		case Optional:
			if fv.IsNil() {
				out.F[i] = &Val{Null: true}
			} else {
				out.F[i] = extractInner(c, fv.Elem(), zero)
			}
		case Repeated:
			l := &Val{}
			for j := 0; j < fv.Len(); j++ {
				l.L = append(l.L, extractInner(c, fv.Index(j), zero))
			}
			out.F[i] = l
		}
	}
	for _, idx := range g.Excluded {
		if !sv.FieldByIndex(idx).IsZero() {
			*zero = false
		}
	}
	return out
}

func extractInner(n *Node, fv reflect.Value, zero *bool) *Val {
	switch n.Kind {
	case Group:
		return extractGroup(n, fv, zero)
	case Int32:
		return &Val{U: uint64(uint32(fv.Int()))}
	case Int64:
		return &Val{U: uint64(fv.Int())}
	case Uint32, Uint64:
		return &Val{U: fv.Uint()}
	case Float32:
		return &Val{U: uint64(math.Float32bits(fv.Interface().(float32)))}
	case Float64:
		return &Val{U: math.Float64bits(fv.Interface().(float64))}
	case Bool:
		if fv.Bool() {
			return &Val{U: 1}
		}
		return &Val{}
	case String:
		return &Val{S: Bytes(fv.String())}
	}
	panic("bad kind")
}

// Mutate overwrites everything reachable from the Go value (pointed-to scalars,
// slice elements, nested structs) in place, without replacing pointers or slices;
// used to check that Add does not alias caller memory.
func Mutate(root *Node, sv reflect.Value) {
	mutGroup(root, sv)
}

func mutGroup(g *Node, sv reflect.Value) {
	for _, c := range g.Children {
		fv := sv.FieldByIndex(c.Index)
		switch c.Rep {
		case Required:
			if c.Kind == Group {
				mutGroup(c, fv) // only reaches memory shared via inner pointers/slices
			}
		case Optional:
			if !fv.IsNil() {
				mutInner(c, fv.Elem())
			}
		case Repeated:
			for j := 0; j < fv.Len(); j++ {
				mutInner(c, fv.Index(j))
			}
		}
	}
}

func mutInner(n *Node, fv reflect.Value) {
	switch n.Kind {
	case Group:
		// overwrite scalar fields of the element, recurse into shared memory
		for _, c := range n.Children {
			cf := fv.FieldByIndex(c.Index)
			switch c.Rep {
			case Required:
				mutInner(c, cf)
			case Optional:
				if !cf.IsNil() {
					mutInner(c, cf.Elem())
				}
			case Repeated:
				for j := 0; j < cf.Len(); j++ {
					mutInner(c, cf.Index(j))
				}
			}
		}
	case Int32, Int64:
		fv.SetInt(fv.Int() ^ 0x5a5a5a5)
	case Uint32, Uint64:
		fv.SetUint(fv.Uint() ^ 0x5a5a5a5)
	case Float32, Float64:
		fv.SetFloat(12345.678)
	case Bool:
		fv.SetBool(!fv.Bool())
	case String:
		fv.SetString(fv.String() + "#mutated")
	}
}

package vt

import "fmt"

// Structural enumeration of the values of a shape: every combination of
// nil / non-nil at each optional and of list length 0..maxLen at each repeated
// node. Scalars are filled afterwards with distinct payloads so that a
// misplaced or duplicated value is visible.

const enumCap = 1 << 40

func satMul(a, b uint64) uint64 {
	if a == 0 || b == 0 {
		return 0
	}
	if a > enumCap/b {
		return enumCap
	}
	return a * b
}

func satAdd(a, b uint64) uint64 {
	if a+b > enumCap {
		return enumCap
	}
	return a + b
}

// listLens: lengths tried at a repeated node; the innermost repeated level also gets length 3.
func maxLenFor(n *Node) int {
	if n.Kind != Group {
		return 3
	}
	var hasRep func(n *Node) bool
	hasRep = func(n *Node) bool {
		for _, c := range n.Children {
			if c.Rep == Repeated || (c.Kind == Group && hasRep(c)) {
				return true
			}
		}
		return false
	}
	if hasRep(n) {
		return 2
	}
	return 3
}

func sizeInner(n *Node) uint64 {
	if n.Kind != Group {
		return 1
	}
	s := uint64(1)
	for _, c := range n.Children {
		s = satMul(s, SizeOf(c))
	}
	return s
}

// SizeOf is the number of structurally distinct values of a node (saturating).
func SizeOf(n *Node) uint64 {
	in := sizeInner(n)
	switch n.Rep {
	case Optional:
		return satAdd(1, in)
	case Repeated:
		total := uint64(0)
		p := uint64(1)
		for l := 0; l <= maxLenFor(n); l++ {
			total = satAdd(total, p)
			p = satMul(p, in)
		}
		return total
	}
	return in
}

func nthInner(n *Node, idx uint64) *Val {
	if n.Kind != Group {
		return &Val{}
	}
	out := &Val{F: make([]*Val, len(n.Children))}
	for i, c := range n.Children {
		s := SizeOf(c)
		out.F[i] = Nth(c, idx%s)
		idx /= s
	}
	return out
}

// Nth decodes the idx-th structural value of a node (idx < SizeOf(n)).
func Nth(n *Node, idx uint64) *Val {
	in := sizeInner(n)
	switch n.Rep {
	case Optional:
		if idx == 0 {
			return &Val{Null: true}
		}
		return nthInner(n, idx-1)
	case Repeated:
		p := uint64(1)
		for l := 0; l <= maxLenFor(n); l++ {
			if idx < p {
				out := &Val{}
				if l == 0 {
					out.E = idx%2 == 1 // irrelevant here (p == 1), kept nil
				}
				for k := 0; k < l; k++ {
					out.L = append(out.L, nthInner(n, idx%in))
					idx /= in
				}
				return out
			}
			idx -= p
			p = satMul(p, in)
		}
		panic(fmt.Sprintf("Nth: index out of range for %s", n.Name))
	}
	return nthInner(n, idx)
}

// FillPayload assigns distinct scalar payloads to every leaf of v (depth-first), starting at *ctr.
func FillPayload(n *Node, v *Val, ctr *uint64) {
	var inner func(n *Node, v *Val)
	inner = func(n *Node, v *Val) {
		if n.Kind == Group {
			for i, c := range n.Children {
				FillPayload(c, v.F[i], ctr)
			}
			return
		}
		*ctr++
		c := *ctr
		switch n.Kind {
		case Int32:
			v.U = uint64(uint32(int32(c) * 3))
			if c%5 == 0 {
				v.U = uint64(uint32(-int32(c)))
			}
		case Uint32:
			v.U = uint64(uint32(c) + 1<<31)
		case Int64:
			v.U = uint64(-int64(c) - 1<<33)
		case Uint64:
			v.U = c + 1<<63
		case Float32:
			v.U = uint64(uint32(0x3f800000) + uint32(c)<<8)
		case Float64:
			v.U = 0xc000000000000000 + c<<20
		case Bool:
			v.U = c % 2
		case String:
			v.S = Bytes(fmt.Sprintf("s%d", c))
			if c%7 == 0 {
				v.S = Bytes{}
			}
		}
	}
	switch n.Rep {
	case Optional:
		if !v.Null {
			inner(n, v)
		}
	case Repeated:
		for _, e := range v.L {
			inner(n, e)
		}
	default:
		inner(n, v)
	}
}

// EnumRecords returns up to max structurally distinct records of the root shape
// (all of them when there are at most max), with distinct payloads.
// complete reports whether the structural space was enumerated completely.
func EnumRecords(root *Node, max int) (recs []*Val, complete bool) {
	total := sizeInner(root)
	var ctr uint64
	if total <= uint64(max) {
		for i := uint64(0); i < total; i++ {
			v := nthInner(root, i)
			for ci, c := range root.Children {
				FillPayload(c, v.F[ci], &ctr)
			}
			recs = append(recs, v)
		}
		return recs, true
	}
	// evenly spread indices plus the first and last few
	seen := map[uint64]bool{}
	add := func(i uint64) {
		if i >= total || seen[i] || len(recs) >= max {
			return
		}
		seen[i] = true
		v := nthInner(root, i)
		for ci, c := range root.Children {
			FillPayload(c, v.F[ci], &ctr)
		}
		recs = append(recs, v)
	}
	for i := uint64(0); i < 8; i++ {
		add(i)
		add(total - 1 - i)
	}
	// one index from each of max equal strata of the index space, at a position inside the
	// stratum that varies from stratum to stratum (so that low-order "digits" vary too)
	step := total / uint64(max)
	for k := uint64(0); k < uint64(max) && len(recs) < max; k++ {
		off := (k * k * 2654435761) % step
		add(k*step + off)
	}
	return recs, false
}

// Package vt holds the harness's own notion of a struct shape (schema tree),
// a generic value tree for records of that shape, and the reflection bridge
// between value trees and the Go structs the generated code works on.
//
// Nothing in this package is derived from parquetgen or the parquet runtime:
// the schema of a Go struct is computed here from the README's rules
// (exported fields; `parquet:"name"` tag or the Go field name; `parquet:"-"`
// and unexported fields are excluded; by-value embedded structs are inlined;
// pointer = optional; slice = repeated; struct = group).
package vt

import (
	"fmt"
	"reflect"
	"strings"
)

type Kind int

const (
	Int32 Kind = iota
	Uint32
	Int64
	Uint64
	Float32
	Float64
	Bool
	String
	Group
)

var kindNames = []string{"int32", "uint32", "int64", "uint64", "float32", "float64", "bool", "string", "group"}

func (k Kind) String() string { return kindNames[k] }

// KindByName maps a Go primitive type name to a Kind.
func KindByName(s string) (Kind, bool) {
	for i, n := range kindNames[:8] {
		if n == s {
			return Kind(i), true
		}
	}
	return 0, false
}

type Rep int

const (
	Required Rep = 0
	Optional Rep = 1
	Repeated Rep = 2
)

func (r Rep) String() string { return [...]string{"required", "optional", "repeated"}[r] }

// Node is one element of the schema tree.
type Node struct {
	Name     string // column name
	GoName   string // Go field name
	Rep      Rep
	Kind     Kind
	Children []*Node // Kind == Group
	// Index is the reflect.FieldByIndex path from the enclosing (non-embedded)
	// struct value to this field; embedded structs add a level.
	Index []int
	// Excluded lists fields of the enclosing struct that are not columns
	// (unexported or dash-tagged); only set on group nodes / root.
	Excluded [][]int
	GoType   reflect.Type // type of the struct for groups (element type)
}

// Column is a leaf with its path information.
type Column struct {
	Leaf   *Node
	Path   []string
	Nodes  []*Node // chain from first level below the root to the leaf
	Idx    []int   // index of each chain node among its parent's children
	MaxDef int
	MaxRep int
}

func (c Column) Name() string { return strings.Join(c.Path, ".") }

// Reps returns the repetition types along the path.
func (c Column) Reps() []Rep {
	out := make([]Rep, len(c.Nodes))
	for i, n := range c.Nodes {
		out[i] = n.Rep
	}
	return out
}

// Columns returns the leaves of the tree in depth-first order.
func (n *Node) Columns() []Column {
	var out []Column
	var walk func(n *Node, chain []*Node, idx []int)
	walk = func(n *Node, chain []*Node, idx []int) {
		for i, ch := range n.Children {
			c2 := append(append([]*Node{}, chain...), ch)
			i2 := append(append([]int{}, idx...), i)
			if ch.Kind == Group {
				walk(ch, c2, i2)
				continue
			}
			col := Column{Leaf: ch, Nodes: c2, Idx: i2}
			for _, x := range c2 {
				col.Path = append(col.Path, x.Name)
				if x.Rep != Required {
					col.MaxDef++
				}
				if x.Rep == Repeated {
					col.MaxRep++
				}
			}
			out = append(out, col)
		}
	}
	walk(n, nil, nil)
	return out
}

// Notation renders the shape in the short notation of DESIGN.md:
// i32, *s, []b for leaves, {..}, *{..}, []{..} for groups.
func (n *Node) Notation() string {
	var sb strings.Builder
	var w func(n *Node, top bool)
	w = func(n *Node, top bool) {
		if !top {
			switch n.Rep {
			case Optional:
				sb.WriteString("*")
			case Repeated:
				sb.WriteString("[]")
			}
		}
		if n.Kind != Group {
			sb.WriteString([...]string{"i32", "u32", "i64", "u64", "f32", "f64", "b", "s"}[n.Kind])
			return
		}
		sb.WriteString("{")
		for i, c := range n.Children {
			if i > 0 {
				sb.WriteString(",")
			}
			w(c, false)
		}
		sb.WriteString("}")
	}
	w(n, true)
	return sb.String()
}

// FromType derives the schema tree of a Go struct type by the README's rules.
func FromType(t reflect.Type) (*Node, error) {
	if t.Kind() != reflect.Struct {
		return nil, fmt.Errorf("not a struct: %s", t)
	}
	root := &Node{Name: "root", Kind: Group, Rep: Required, GoType: t}
	if err := fillGroup(root, t, nil); err != nil {
		return nil, err
	}
	return root, nil
}

func fillGroup(g *Node, t reflect.Type, prefix []int) error {
	for i := 0; i < t.NumField(); i++ {
		f := t.Field(i)
		idx := append(append([]int{}, prefix...), i)
		tag, hasTag := f.Tag.Lookup("parquet")
		if f.Anonymous && f.Type.Kind() == reflect.Struct && f.IsExported() && tag != "-" {
			// by-value embedded struct: inline its fields
			if err := fillGroup(g, f.Type, idx); err != nil {
				return err
			}
			continue
		}
		if !f.IsExported() || tag == "-" {
			g.Excluded = append(g.Excluded, idx)
			continue
		}
		name := f.Name
		if hasTag && tag != "" {
			name = tag
		}
		n := &Node{Name: name, GoName: f.Name, Index: idx}
		ft := f.Type
		switch ft.Kind() {
		case reflect.Ptr:
			n.Rep = Optional
			ft = ft.Elem()
		case reflect.Slice:
			n.Rep = Repeated
			ft = ft.Elem()
		}
		switch ft.Kind() {
		case reflect.Int32:
			n.Kind = Int32
		case reflect.Uint32:
			n.Kind = Uint32
		case reflect.Int64:
			n.Kind = Int64
		case reflect.Uint64:
			n.Kind = Uint64
		case reflect.Float32:
			n.Kind = Float32
		case reflect.Float64:
			n.Kind = Float64
		case reflect.Bool:
			n.Kind = Bool
		case reflect.String:
			n.Kind = String
		case reflect.Struct:
			n.Kind = Group
			n.GoType = ft
			if err := fillGroup(n, ft, nil); err != nil {
				return err
			}
		default:
			return fmt.Errorf("field %s: unsupported type %s", f.Name, f.Type)
		}
		g.Children = append(g.Children, n)
	}
	return nil
}
